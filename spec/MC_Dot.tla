------------------------------- MODULE MC_Dot -------------------------------
(* (M) for C29: sanity theorems of the recognisers of DotLex.tla over all    *)
(* short strings of tiny alphabets, the sufficiency of the escaping stated   *)
(* in DotExport.tla, and the oracle that evaluates Predict on real strings.  *)
EXTENDS DotExport, IOUtils, Json

DevSet == IF IOEnv.VT_DEV = "" THEN {} ELSE {IOEnv.VT_DEV}
MaxLen == CHOOSE n \in 1..9 : ToString(n) = IOEnv.VT_MAXLEN

VARIABLES txt, cfg, i
mvars == <<txt, cfg, i>>

----------------------------------------------------------------------------
\* A. all short strings as field contents / record labels
FieldAlpha == {97, SP, BS, DQ, LB, RB, BAR, LT, GT, NL, 63}

FInit == txt = <<>> /\ cfg = Init0 /\ i = 0
FNext == /\ Len(txt) < MaxLen
         /\ \E c \in FieldAlpha : txt' = Append(txt, c)
         /\ UNCHANGED <<cfg, i>>
FSpec == FInit /\ [][FNext]_mvars

\* reference: nesting depth of unescaped braces; -1 once the outermost level was closed
RECURSIVE RefDepth(_, _, _)
RefDepth(s, k, d) ==
  IF d < 0 \/ k > Len(s) THEN d
  ELSE IF s[k] = BS THEN RefDepth(s, k + 2, d)
  ELSE IF s[k] = LB THEN RefDepth(s, k + 1, d + 1)
  ELSE IF s[k] = RB THEN RefDepth(s, k + 1, d - 1)
  ELSE RefDepth(s, k + 1, d)

RecOf(s) == RecRun(RecInit, s, 1)
\* an accepted record label has balanced braces (or was closed at the outermost level)
RecBalanced == LET r == RecOf(txt) IN
               /\ (~r.bad /\ ~r.fin => Len(r.ms) - 1 = RefDepth(txt, 1, 0))
               /\ (~r.bad /\ r.fin => RefDepth(txt, 1, 0) < 0)
               /\ (RecordOK(txt) /\ ~r.fin => RefDepth(txt, 1, 0) = 0)
\* rejection of a record label is final: no extension is accepted again
RecPrefixClosed == [][RecOf(txt).bad => RecOf(txt').bad]_mvars
\* the property on the exporter side: escaped fields never break the output
EscapeSuffices == FieldsWellFormed(txt)

----------------------------------------------------------------------------
\* B. all short statement texts after `digraph{`
DotAlpha == {97, SP, DQ, BS, LB, RB, LSQ, RSQ, EQ, SEMI, MINUS, GT, LT}
Start == Run(Init0, <<100, 105, 103, 114, 97, 112, 104, 123>>, 1)

DInit == txt = <<>> /\ cfg = Start /\ i = 0
DNext == /\ Len(txt) < MaxLen
         /\ \E c \in DotAlpha : txt' = Append(txt, c) /\ cfg' = Step(cfg, c)
         /\ UNCHANGED i
DSpec == DInit /\ [][DNext]_mvars

\* reference scanner: quoting, HTML nesting and brace depth only
RECURSIVE RefScan(_, _, _)
RefScan(s, k, st) ==
  IF k > Len(s) THEN st ELSE
  LET c == s[k] IN
  RefScan(s, k + 1,
    CASE st.m = "s" -> IF c = BS THEN [st EXCEPT !.m = "e"] ELSE IF c = DQ THEN [st EXCEPT !.m = "n"] ELSE st
      [] st.m = "e" -> [st EXCEPT !.m = "s"]
      [] st.m = "h" -> IF c = LT THEN [st EXCEPT !.h = @ + 1]
                       ELSE IF c = GT THEN (IF st.h = 1 THEN [st EXCEPT !.h = 0, !.m = "n"] ELSE [st EXCEPT !.h = @ - 1])
                       ELSE st
      [] OTHER -> CASE c = DQ -> [st EXCEPT !.m = "s"]
                    [] c = LT -> [st EXCEPT !.m = "h", !.h = 1]
                    [] c = LB -> [st EXCEPT !.d = @ + 1]
                    [] c = RB -> [st EXCEPT !.d = @ - 1]
                    [] OTHER -> st)
Ref == RefScan(txt, 1, [m |-> "n", h |-> 0, d |-> 1])

\* while no error is found the recogniser's stack is the brace depth and its
\* lexical mode is the quoting state of the text
DepthAgrees == cfg.err = "" =>
                 /\ Len(cfg.stk) = Ref.d
                 /\ (cfg.lex \in {"str", "stresc"} <=> Ref.m \in {"s", "e"})
                 /\ (cfg.lex = "html" <=> Ref.m = "h") /\ cfg.hd = Ref.h
\* accepted texts have balanced quotes, angle brackets and braces
AcceptBalanced == Accepting(cfg) => Ref.m = "n" /\ Ref.d = 0 /\ Ref.h = 0
\* an error is final (the accepted language is prefix-closed under rejection)
ErrSticky == [][cfg.err # "" => cfg'.err = cfg.err]_mvars
\* every counted statement needs at least one character
CountsSane == cfg.nodes + cfg.bare + cfg.edges <= Len(txt) /\ cfg = Run(Start, txt, 1)

----------------------------------------------------------------------------
\* C. oracle: Predict(kind, s) for real strings
Cases == IF IOEnv.VT_CASES = "" THEN <<>> ELSE JsonDeserialize(IOEnv.VT_CASES)
OInit == txt = <<>> /\ cfg = Init0 /\ i = 0
ONext == /\ i < Len(Cases) /\ i' = i + 1 /\ UNCHANGED <<txt, cfg>>
         /\ PrintT("RESULT|" \o ToJson([id |-> Cases[i + 1].id, v |-> Predict(Cases[i + 1].kind, Cases[i + 1].s)]))
OSpec == OInit /\ [][ONext]_mvars

\* D. oracle: classes a meta-model export shows (cases: [id, files])
S2Q(S) == LET RECURSIVE f(_) f(T) == IF T = {} THEN <<>> ELSE LET x == CHOOSE x \in T : TRUE IN <<x>> \o f(T \ {x}) IN f(S)
WNext == /\ i < Len(Cases) /\ i' = i + 1 /\ UNCHANGED <<txt, cfg>>
         /\ PrintT("RESULT|" \o ToJson([id |-> Cases[i + 1].id, drawn |-> S2Q(Drawn(Cases[i + 1].files)),
                                       crash |-> Crashes(Cases[i + 1].files)]))
WSpec == OInit /\ [][WNext]_mvars
=============================================================================
