------------------------------ MODULE Imports ------------------------------
(***************************************************************************)
(* Grammar imports of textX (property C25).                                *)
(*                                                                         *)
(* A case is a sequence F of grammar files; F[1] is the main grammar.      *)
(*   path    -- components below the directory of the main grammar,        *)
(*              <<"d","g">> is d/g.tx                                      *)
(*   imports -- the import statements in textual order, each the relative  *)
(*              dotted name split at the dots (<<"d","g">> is `import d.g`)*)
(*   rules   -- names of the rules the file defines                        *)
(*   body    -- per rule (parallel to rules): "common" (has attributes),   *)
(*              "match" (a string match), "alias" (the body is a single    *)
(*              rule reference `A: B;`), "probe" (the harness's carrier)   *)
(*   alias   -- for the alias rules: [name, target]                        *)
(*   refs    -- unqualified rule names the file references                 *)
(*   qrefs   -- qualified references [ns, name, form]; ns is a path,       *)
(*              form "rule" is `x=ns.Name`, form "obj" is `x=[ns.Name]`    *)
(*                                                                         *)
(* Documented semantics (docs/src/grammar.md, "Grammar modularization"):   *)
(* a reference is searched in the current file and then in the imported    *)
(* files in the order of the import; a fully qualified name overrides the  *)
(* search; every class carries the import path of its file (_tx_fqn).      *)
(* The reference in the body of an alias rule is searched like any other,  *)
(* from the file that contains the rule: the kind of the rule (match if    *)
(* the target is a match rule, else abstract with the target as its only   *)
(* subclass) is a function of its own file's resolution, whoever imports   *)
(* the file.                                                               *)
(*                                                                         *)
(* The loader is a state machine: a depth-first traversal of the import    *)
(* statements with a stack, every file entered once.  With Dev = {} the    *)
(* references are linked once every reachable file is defined, which is    *)
(* the documented meaning on any graph, cyclic or not.  The deviation      *)
(* clauses describe the points where the implementation is known to do     *)
(* something else (findings.d/C25.json).                                   *)
(***************************************************************************)
EXTENDS Naturals, Sequences, FiniteSets, TLC

CONSTANTS Dev       \* deviation clauses switched on; documented semantics: {}

VARIABLES
  fs,      \* the case (constant during a behaviour)
  stack,   \* Seq of [f, k]: files being loaded, k = next import statement
  order,   \* files in the order they were entered
  fin,     \* files in the order they were finished
  defd,    \* [file -> set of rule names defined so far]
  loads,   \* [file -> number of times the file was parsed]
  res,     \* Seq of <<file, name, target file>>   unqualified references linked
  qres,    \* Seq of <<file, qref index, target file>>
  ares,    \* Seq of <<file, alias index, target file>>   bodies of alias rules linked
  phase,   \* "load" | "link" | "ready" | "failed"
  err,     \* "-" | "unresolved" | "syntax"
  steps

vars == <<fs, stack, order, fin, defd, loads, res, qres, ares, phase, err, steps>>

----------------------------------------------------------------------------
\* static structure of a case F

Range(s) == {s[k] : k \in DOMAIN s}
Dir(p) == SubSeq(p, 1, Len(p) - 1)
RECURSIVE Dotted(_)
Dotted(p) == IF Len(p) = 0 THEN "" ELSE IF Len(p) = 1 THEN p[1] ELSE p[1] \o "." \o Dotted(Tail(p))

RECURSIVE Joined(_, _)
Joined(p, sep) == IF Len(p) = 0 THEN "" ELSE IF Len(p) = 1 THEN p[1] ELSE p[1] \o sep \o Joined(Tail(p), sep)

Ns(F, i) == Dotted(F[i].path)                     \* namespace = import path of the file
Fqn(F, i, n) == Ns(F, i) \o "." \o n              \* _tx_fqn of the class of rule n of file i

FileAt(F, p) == LET J == {j \in 1..Len(F) : F[j].path = p}
                IN IF J = {} THEN 0 ELSE CHOOSE j \in J : TRUE
\* `import a.b` in file i names the file a/b.tx relative to the directory of file i
Target(F, i, rel) == FileAt(F, Dir(F[i].path) \o rel)
ImpT(F, i) == [k \in 1..Len(F[i].imports) |-> Target(F, i, F[i].imports[k])]

Rules(F) == [i \in 1..Len(F) |-> Range(F[i].rules)]

\* the search: own file first, then the imported files in import order
RECURSIVE FirstDef(_, _, _, _)
FirstDef(D, ts, k, n) == IF k > Len(ts) THEN 0
                         ELSE IF ts[k] # 0 /\ n \in D[ts[k]] THEN ts[k]
                         ELSE FirstDef(D, ts, k + 1, n)
ResolveIn(F, D, i, n) == IF n \in D[i] THEN i ELSE FirstDef(D, ImpT(F, i), 1, n)

\* Resolve(file, name) of the documentation: D = the complete files
Resolve(F, i, n) == ResolveIn(F, Rules(F), i, n)

\* bodies
BodyOf(F, i, n) == F[i].body[CHOOSE k \in 1..Len(F[i].rules) : F[i].rules[k] = n]
AliasIdx(F, i, n) == LET K == {k \in 1..Len(F[i].alias) : F[i].alias[k].name = n}
                     IN IF K = {} THEN 0 ELSE CHOOSE k \in K : TRUE
\* the rule whose body is matched when rule n of file i is referenced (documented)
ConcreteDoc(F, i, n) == IF BodyOf(F, i, n) # "alias" THEN <<i, n>>
                        ELSE LET t == F[i].alias[AliasIdx(F, i, n)].target IN <<Resolve(F, i, t), t>>
KindOfBody(b) == IF b = "match" THEN "match" ELSE "common"
\* the kind of rule n of file i: decided inside file i
KindDoc(F, i, n) == IF BodyOf(F, i, n) # "alias" THEN KindOfBody(BodyOf(F, i, n))
                    ELSE LET c == ConcreteDoc(F, i, n) IN
                         IF c[1] = 0 THEN "?" ELSE IF BodyOf(F, c[1], c[2]) = "match" THEN "match" ELSE "abstract"

\* a qualified name selects the rule of the named (loaded) file
QResolveIn(F, D, L, q, n) == LET j == FileAt(F, q)
                             IN IF j # 0 /\ j \in L /\ n \in D[j] THEN j ELSE 0

\* declarative reading of the documentation, used as the property
IsDocTarget(F, i, n, j) ==
  IF n \in Rules(F)[i] THEN j = i
  ELSE LET ts == ImpT(F, i) IN
       \E k \in 1..Len(ts) : /\ ts[k] = j /\ j # 0 /\ n \in Rules(F)[j]
                             /\ \A k2 \in 1..(k - 1) : ts[k2] = 0 \/ n \notin Rules(F)[ts[k2]]

\* files reachable through import statements (least fixed point)
RECURSIVE ReachFrom(_, _)
ReachFrom(F, S) == LET T == S \cup {j \in 1..Len(F) : \E i \in S : j \in Range(ImpT(F, i))}
                   IN IF T = S THEN S ELSE ReachFrom(F, T)
Reach(F) == ReachFrom(F, {1})

Cyclic(F) == \E i \in Reach(F) : i \in ReachFrom(F, Range(ImpT(F, i)) \ {0}) /\ Range(ImpT(F, i)) \ {0} # {}

\* the depth-first load as a function: entering order and who entered whom
RECURSIVE Visit(_, _, _, _)
Visit(F, i, k, acc) ==
  IF k > Len(ImpT(F, i)) THEN acc
  ELSE LET g == ImpT(F, i)[k] IN
       IF g = 0 \/ g \in Range(acc.order) THEN Visit(F, i, k + 1, acc)
       ELSE Visit(F, i, k + 1,
                  Visit(F, g, 1, [order |-> Append(acc.order, g),
                                  parent |-> [acc.parent EXCEPT ![g] = i]]))
Dfs(F) == Visit(F, 1, 1, [order |-> <<1>>, parent |-> [i \in 1..Len(F) |-> 0]])

----------------------------------------------------------------------------
\* the loader

Top == stack[Len(stack)]

\* deviation clauses about the grammar language: the file is not accepted at all
Rejected(i) ==
  \E r \in Range(fs[i].qrefs) :
     \/ "QualifiedRuleRefRejected" \in Dev /\ r.form = "rule"
     \/ "QualifiedNameOneDot" \in Dev /\ r.form = "obj" /\ Len(r.ns) > 1

\* links of file i against the definitions D and the loaded files L
LinksOf(D, L, i) == [k \in 1..Len(fs[i].refs) |-> <<i, fs[i].refs[k], ResolveIn(fs, D, i, fs[i].refs[k])>>]
QLinksOf(D, L, i) == [k \in 1..Len(fs[i].qrefs) |->
                        <<i, k, QResolveIn(fs, D, L, fs[i].qrefs[k].ns, fs[i].qrefs[k].name)>>]
ALinksOf(D, i) == [k \in 1..Len(fs[i].alias) |-> <<i, k, ResolveIn(fs, D, i, fs[i].alias[k].target)>>]
Dangling(ls) == \E k \in 1..Len(ls) : ls[k][3] = 0

RECURSIVE Flat(_)
Flat(ss) == IF Len(ss) = 0 THEN <<>> ELSE Head(ss) \o Flat(Tail(ss))

Fail(e) == /\ phase' = "failed" /\ err' = e
           /\ UNCHANGED <<stack, order, fin, defd, loads, res, qres, ares>>

InitFor(F) ==
  /\ fs = F
  /\ stack = << [f |-> 1, k |-> 1] >>
  /\ order = <<1>> /\ fin = <<>>
  /\ defd = [i \in 1..Len(F) |-> {}]
  /\ loads = [i \in 1..Len(F) |-> IF i = 1 THEN 1 ELSE 0]
  /\ res = <<>> /\ qres = <<>> /\ ares = <<>>
  /\ phase = "load" /\ err = "-" /\ steps = 0

\* one step of loading: the next import statement of the file on top, or its end
Load ==
  /\ phase = "load"
  /\ LET i == Top.f  k == Top.k IN
     IF Rejected(i) THEN Fail("syntax")
     ELSE IF k <= Len(fs[i].imports) THEN
       LET g == Target(fs, i, fs[i].imports[k])
           adv == [stack EXCEPT ![Len(stack)].k = k + 1]
       IN IF g = 0 THEN Fail("nofile")
          ELSE IF g \in Range(order) /\ "ReloadOnImport" \notin Dev
          THEN \* already entered (possibly still being loaded: a cycle): nothing is loaded again
               /\ stack' = adv
               /\ UNCHANGED <<order, fin, defd, loads, res, qres, ares, phase, err>>
          ELSE /\ stack' = Append(adv, [f |-> g, k |-> 1])
               /\ order' = Append(order, g)
               /\ loads' = [loads EXCEPT ![g] = @ + 1]
               /\ UNCHANGED <<fin, defd, res, qres, ares, phase, err>>
     ELSE \* the rules of the file become defined; the file is finished
       LET D == [defd EXCEPT ![i] = Range(fs[i].rules)]
           ls == LinksOf(D, Range(order), i)
           qs == QLinksOf(D, Range(order), i)
           al == ALinksOf(D, i)
           rest == SubSeq(stack, 1, Len(stack) - 1)
       IN /\ defd' = D /\ fin' = Append(fin, i) /\ UNCHANGED <<order, loads>>
          /\ IF "ResolveWhenFileEnds" \in Dev
             THEN \* implementation: a file is linked as soon as it ends, seeing only
                  \* what is defined by then (a file that is still being loaded is empty)
                  IF Dangling(ls) \/ Dangling(qs) \/ Dangling(al)
                  THEN /\ phase' = "failed" /\ err' = "unresolved" /\ UNCHANGED <<stack, res, qres, ares>>
                  ELSE /\ res' = res \o ls /\ qres' = qres \o qs /\ ares' = ares \o al
                       /\ stack' = rest /\ err' = err
                       /\ phase' = IF Len(rest) = 0 THEN "ready" ELSE "load"
             ELSE /\ stack' = rest /\ UNCHANGED <<res, qres, ares, err>>
                  /\ phase' = IF Len(rest) = 0 THEN "link" ELSE "load"

\* documented: references are linked against the complete files
Link ==
  /\ phase = "link"
  /\ LET L  == Range(order)
         ls == Flat([k \in 1..Len(order) |-> LinksOf(defd, L, order[k])])
         qs == Flat([k \in 1..Len(order) |-> QLinksOf(defd, L, order[k])])
         al == Flat([k \in 1..Len(order) |-> ALinksOf(defd, order[k])])
     IN IF Dangling(ls) \/ Dangling(qs) \/ Dangling(al)
        THEN /\ phase' = "failed" /\ err' = "unresolved" /\ UNCHANGED <<res, qres, ares>>
        ELSE /\ phase' = "ready" /\ res' = ls /\ qres' = qs /\ ares' = al /\ err' = err
  /\ UNCHANGED <<stack, order, fin, defd, loads>>

Final == phase \in {"ready", "failed"}

Next == /\ (Load \/ Link)
        /\ steps' = steps + 1
        /\ fs' = fs

----------------------------------------------------------------------------
\* what an observer of the loaded meta-model sees (all strings, for comparison)

RECURSIVE Chain(_)
Chain(i) == IF fs[i].parent = 0 THEN Fqn(fs, i, fs[i].rules[1])
            ELSE Chain(fs[i].parent) \o ">" \o Fqn(fs, i, fs[i].rules[1])
NsSeq(s) == [k \in 1..Len(s) |-> Ns(fs, s[k])]

\* as linked by the loader: the rule matched when rule n of file i is referenced
ConcreteNow(i, n) ==
  IF BodyOf(fs, i, n) # "alias" THEN <<i, n>>
  ELSE LET a == AliasIdx(fs, i, n)
           K == {k \in 1..Len(ares) : ares[k][1] = i /\ ares[k][2] = a}
       IN IF K = {} THEN <<0, n>> ELSE <<ares[CHOOSE k \in K : TRUE][3], fs[i].alias[a].target>>
KindNow(i, n) == IF BodyOf(fs, i, n) # "alias" THEN KindOfBody(BodyOf(fs, i, n))
                 ELSE LET c == ConcreteNow(i, n) IN
                      IF c[1] = 0 THEN "?" ELSE IF BodyOf(fs, c[1], c[2]) = "match" THEN "match" ELSE "abstract"
InhNow(i, n) == IF KindNow(i, n) = "abstract" THEN LET c == ConcreteNow(i, n) IN Fqn(fs, c[1], c[2]) ELSE ""
\* the text a rule matches starts with this keyword (the harness renders it so)
Kw(j, n) == IF BodyOf(fs, j, n) = "probe" THEN "%" \o n ELSE "%" \o n \o "_in_" \o Joined(fs[j].path, "_")
\* a model that reaches, through the probe rules, a reference in file i that is linked to rule n
\* of file j: the classes of its objects, and the keyword that had to be written
Parsed(i, j, n) ==
  LET c == ConcreteNow(j, n) IN
  IF c[1] = 0 THEN "?"
  ELSE Chain(i) \o (IF BodyOf(fs, c[1], c[2]) = "match" THEN "" ELSE ">" \o Fqn(fs, c[1], c[2]))
       \o "@" \o Kw(c[1], c[2])

ClassesOf(i) == [k \in 1..Len(fs[i].rules) |->
                   LET n == fs[i].rules[k] IN
                   <<Ns(fs, i), n, Fqn(fs, i, n), ToString(loads[i]), KindNow(i, n), InhNow(i, n)>>]
Outcome ==
  IF phase = "failed"
  THEN [status |-> "failed", err |-> err, loaded |-> <<>>, classes |-> <<>>, res |-> <<>>, qres |-> <<>>,
        main |-> <<>>]
  ELSE [status |-> "ready", err |-> "-",
        loaded  |-> NsSeq(order),
        \* per class: namespace, name, _tx_fqn, number of class objects, rule kind, subclasses
        classes |-> Flat([k \in 1..Len(order) |-> ClassesOf(order[k])]),
        \* per reference: file, name, class it is linked to, and what a model reaching the
        \* reference through the probe rules consists of
        res     |-> [k \in 1..Len(res) |-> <<Ns(fs, res[k][1]), res[k][2], Fqn(fs, res[k][3], res[k][2]),
                                              Parsed(res[k][1], res[k][3], res[k][2])>>],
        qres    |-> [k \in 1..Len(qres) |->
                       LET r == fs[qres[k][1]].qrefs[qres[k][2]]
                       IN <<Ns(fs, qres[k][1]), Dotted(r.ns) \o "." \o r.name, r.form,
                            Fqn(fs, qres[k][3], r.name),
                            IF r.form = "rule" THEN Parsed(qres[k][1], qres[k][3], r.name) ELSE "">>],
        \* metamodel[name] after the load looks names up from the main grammar
        main    |-> LET ns == fs[1].probe IN
                    [k \in 1..Len(ns) |->
                       LET j == ResolveIn(fs, defd, 1, ns[k])
                       IN <<ns[k], IF j = 0 THEN "-" ELSE Fqn(fs, j, ns[k])>>]]

----------------------------------------------------------------------------
\* Properties (C25)

TypeOK ==
  /\ phase \in {"load", "link", "ready", "failed"}
  /\ \A k \in 1..Len(stack) : stack[k].f \in 1..Len(fs) /\ stack[k].k \in 1..(Len(fs[stack[k].f].imports) + 1)
  /\ Range(order) \subseteq 1..Len(fs) /\ Range(fin) \subseteq Range(order)

\* the traversal is well defined on every import graph: no file is on the
\* stack twice, so a cycle of imports cannot recurse for ever
StackNoDup == /\ \A a, b \in 1..Len(stack) : stack[a].f = stack[b].f => a = b
              /\ (phase = "load" => Len(stack) > 0)

StepBound(F) == 2 + 2 * Len(F) + Len(Flat([i \in 1..Len(F) |-> F[i].imports]))
Terminates == steps <= StepBound(fs)

\* one class set per grammar file however often it is imported
OneClassSet == /\ \A i \in 1..Len(fs) : loads[i] <= 1
               /\ \A a, b \in 1..Len(order) : order[a] = order[b] => a = b
               /\ (phase \in {"link", "ready"} => Range(order) = Reach(fs) /\ Range(fin) = Reach(fs))

\* the machine visits the files in the order of the functional definition
DfsAgrees == phase \in {"link", "ready"} => order = Dfs(fs).order

\* own file first, then the first import, in import order, that defines the rule
ResolvedAsDocumented ==
  phase = "ready" =>
    /\ \A k \in 1..Len(res) : IsDocTarget(fs, res[k][1], res[k][2], res[k][3])
    /\ \A k \in 1..Len(qres) :
         LET r == fs[qres[k][1]].qrefs[qres[k][2]]
         IN fs[qres[k][3]].path = r.ns /\ r.name \in Rules(fs)[qres[k][3]]
    /\ \A k \in 1..Len(ares) : IsDocTarget(fs, ares[k][1], fs[ares[k][1]].alias[ares[k][2]].target, ares[k][3])
    /\ \A i \in Reach(fs) : \A a \in 1..Len(fs[i].alias) :
         Cardinality({k \in 1..Len(ares) : ares[k][1] = i /\ ares[k][2] = a}) = 1
    \* deterministic and total: every reference of every loaded file is linked exactly once
    /\ \A i \in Reach(fs) : \A n \in Range(fs[i].refs) :
         Cardinality({k \in 1..Len(res) : res[k][1] = i /\ res[k][2] = n}) = 1
    /\ \A i \in Reach(fs) : \A q \in 1..Len(fs[i].qrefs) :
         Cardinality({k \in 1..Len(qres) : qres[k][1] = i /\ qres[k][2] = q}) = 1

\* a load fails only if some reference has no documented target
FailsOnlyWhenDangling ==
  phase = "failed" =>
    /\ err = "unresolved"
    /\ \E i \in Reach(fs) :
         \/ \E n \in Range(fs[i].refs) : Resolve(fs, i, n) = 0
         \/ \E r \in Range(fs[i].qrefs) : QResolveIn(fs, Rules(fs), Reach(fs), r.ns, r.name) = 0
         \/ \E a \in Range(fs[i].alias) : Resolve(fs, i, a.target) = 0

\* the kind of a rule is a function of its own file's resolution: whatever the importing
\* files define, an alias rule is a match rule iff its target, searched from its own file, is one
KindIsLocal ==
  phase = "ready" =>
    \A i \in Reach(fs) : \A n \in Range(fs[i].rules) :
       /\ KindNow(i, n) = KindDoc(fs, i, n)
       /\ ConcreteNow(i, n) = ConcreteDoc(fs, i, n)

\* class names are file based and identify the class
FqnFileBased ==
  steps = 0 => \A i, j \in 1..Len(fs) : \A n \in Rules(fs)[i], m \in Rules(fs)[j] :
     (Fqn(fs, i, n) = Fqn(fs, j, m)) <=> (i = j /\ n = m)
=============================================================================
