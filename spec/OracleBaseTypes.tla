-------------------------- MODULE OracleBaseTypes --------------------------
(***************************************************************************)
(* I->S for C04: BaseTypes evaluated by TLC on cases recorded by the       *)
(* harness (seeded-random long / unicode strings, big integers, floats in  *)
(* every printed form).  A case is                                         *)
(*   [id, mode |-> "enc",  rules, parts |-> <<[q, s], ...>>, sep]          *)
(*        the module writes the strings itself (Enc) and reads them back   *)
(*   [id, mode |-> "one" | "many" | "seq", rules, text]                    *)
(*        `x=R` | `v*=R` | `a=R1 b=R2 ..` applied to the given text        *)
(* Text and digits are sequences of code points (TLC integers are 32 bit). *)
(***************************************************************************)
EXTENDS BaseTypes, TLC, Json, IOUtils

Cases == JsonDeserialize(IOEnv.VT_CASES)
ODev  == IF IOEnv.VT_DEV = "" THEN {} ELSE {IOEnv.VT_DEV}

TextOf(cs) == IF cs.mode = "enc" THEN EncAll(cs.parts, cs.sep) ELSE cs.text

Parsed(cs) ==
  CASE cs.mode \in {"enc", "many"} -> ParseMany(cs.rules[1], TextOf(cs))
    [] cs.mode = "seq"             -> ParseSeq(cs.rules, TextOf(cs))
    [] cs.mode = "one"             -> LET m == ParseOne(cs.rules[1], TextOf(cs))
                                      IN [ok |-> m.ok, ms |-> IF m.ok THEN <<m>> ELSE <<>>]

\* for "enc": the round-trip theorem instantiated on this case
RoundTrip(cs, p) ==
  cs.mode = "enc" =>
    p.ok /\ Len(p.ms) = Len(cs.parts) /\ \A n \in 1..Len(cs.parts) : p.ms[n].val = cs.parts[n].s

Answer(cs) == LET p == Parsed(cs) IN
              [id |-> cs.id, text |-> TextOf(cs), ok |-> p.ok,
               ms |-> [n \in 1..Len(p.ms) |-> Res(p.ms[n])],
               thm |-> RoundTrip(cs, p)]

VARIABLE i
Init == i = 0
Next == i < Len(Cases) /\ i' = i + 1 /\ PrintT("RESULT|" \o ToJson(Answer(Cases[i + 1])))
Spec == Init /\ [][Next]_i
=============================================================================
