SPECIFICATION Spec
CONSTANTS
  MaxN = 3
  Dev <- NoDev
INVARIANT TypeOK
INVARIANT AllOrNothing
INVARIANT NothingPartialLeft
INVARIANT NoSkipOfPartial
INVARIANT DoneIsComplete
INVARIANT RerunEndsWhole
PROPERTY OverwriteRespected
CHECK_DEADLOCK FALSE
