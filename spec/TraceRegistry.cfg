SPECIFICATION TraceSpec
CONSTANTS
  Names <- TNames
  Lower <- TLower
  Patterns <- TPatterns
  Files <- TFiles
  Match <- TMatch
  EPLangs <- TEPLangs
  EPGens <- TEPGens
  Targets <- TTargets
  MaxFresh = 0
  Ops <- TOps
  Dev <- TDev
CONSTRAINT Progress
POSTCONDITION Report
CHECK_DEADLOCK FALSE
