SPECIFICATION TraceSpec
CONSTANTS
  Dev = {}
CONSTRAINT Progress
POSTCONDITION Report
CHECK_DEADLOCK FALSE
