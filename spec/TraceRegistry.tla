--------------------------- MODULE TraceRegistry ---------------------------
(* I->S: recorded call sequences of textx.registration validated against    *)
(* Registry!Next.  Many traces per TLC run: `tid` is chosen in TraceInit,   *)
(* `l` counts consumed events, register tid keeps the furthest l reached.   *)
(* A trace is accepted iff all its events were consumed.                    *)
EXTENDS Registry, IOUtils

Traces == JsonDeserialize(IOEnv.VT_TRACES)     \* Seq of Seq of events
\* event = [name, args, res |-> [ok, v], state |-> Core after the call]

Univ == JsonDeserialize(IOEnv.VT_UNIV)         \* the universe the driver used
TNames == Range(Univ.names)   TLower == Univ.lower   TPatterns == Range(Univ.patterns)
TFiles == Range(Univ.files)   TMatch == Univ.match   TEPLangs == Univ.eplangs
TEPGens == Univ.epgens        TTargets == Range(Univ.targets)
TOps == Range(Univ.ops)       TDev == Range(Univ.dev)

VARIABLES tid, l
tvars == <<vars, tid, l>>

ASSUME \A t \in 1..Len(Traces) : TLCSet(t, 0)

TraceInit == Init /\ tid \in 1..Len(Traces) /\ l = 0

StateMatches(st) ==
  /\ lloaded' = st.lloaded /\ gloaded' = st.gloaded /\ fresh' = st.fresh
  /\ langs' = st.langs /\ Range(gens') = Range(st.gens)
  /\ cache' = Range(st.cache)

Step(e) ==
  CASE e.name = "RegisterLanguage"  -> RegisterLanguage(e.args[1], e.args[2], e.args[3])
    [] e.name = "DescribeLanguage"  -> DescribeLanguage(e.args[1])
    [] e.name = "ListLanguages"     -> ListLanguages
    [] e.name = "ClearLanguages"    -> ClearLanguages
    [] e.name = "MetamodelFor"      -> MetamodelFor(e.args[1], e.args[2], e.args[3])
    [] e.name = "LanguagesForFile"  -> LanguagesForFile(e.args[1])
    [] e.name = "LanguageForFile"   -> LanguageForFile(e.args[1])
    [] e.name = "RegisterGenerator" -> RegisterGenerator(e.args[1], e.args[2])
    [] e.name = "DescribeGenerator" -> DescribeGenerator(e.args[1], e.args[2], e.args[3])
    [] e.name = "ClearGenerators"   -> ClearGenerators
    [] OTHER -> FALSE

TraceNext ==
  /\ l < Len(Traces[tid])
  /\ LET e == Traces[tid][l + 1] IN
     /\ Step(e)
     /\ op'.res.ok = e.res.ok /\ op'.res.v = e.res.v      \* logged result
     /\ StateMatches(e.state)                             \* logged abstract state
  /\ l' = l + 1 /\ tid' = tid

TraceSpec == TraceInit /\ [][TraceNext]_tvars

Progress == TLCSet(tid, IF l > TLCGet(tid) THEN l ELSE TLCGet(tid))

Report == \A t \in 1..Len(Traces) :
            PrintT("TRACE|" \o ToJson([tid |-> t, reached |-> TLCGet(t), len |-> Len(Traces[t])]))
=============================================================================
