SPECIFICATION Spec
CONSTANTS
  ScSeq <- FileScenarios
  Listed <- FileDevs
  Force <- ForceOff
INVARIANT G_C17_OpenOnce
INVARIANT G_C17_OpensCreated
INVARIANT G_C17_Identity
INVARIANT G_C17_CachedNotOpened
INVARIANT G_C17_CacheSame
INVARIANT G_C17_CacheKept
INVARIANT G_C18_CleanRepos
INVARIANT G_C18_RepairedReload
INVARIANT G_C27_Reject
INVARIANT G_C27_Params
INVARIANT G_C28_Location
INVARIANT EmitOut
