-------------------------- MODULE MC_LoaderResolve --------------------------
(* Scenario universes for model checking LoaderResolve (M) and for the      *)
(* scenario/outcome enumeration replayed against textX (S->I).              *)
EXTENDS LoaderResolve, IOUtils

Seg(lo, k) == [i \in 1..k |-> lo + i - 1]
St(lst, lo, k, j) == [list |-> lst, refs |-> Seg(lo, k), join |-> j]

\* all ways to cut the references lo..hi into statements: `use r` | `refs r, ..`
RECURSIVE Shapes(_, _)
Shapes(lo, hi) ==
  IF lo > hi THEN {<<>>}
  ELSE UNION { LET firsts == IF k = 1
                             THEN {St(FALSE, lo, 1, "none"), St(TRUE, lo, 1, "none")}
                             ELSE {St(TRUE, lo, k, "none")}
               IN {<<f>> \o rest : f \in firsts, rest \in Shapes(lo + k, hi)}
             : k \in 1..(hi - lo + 1) }

Files1(n) == {<<a>> : a \in Shapes(1, n)}
Files2(n) == UNION {{<<a, b>> : a \in Shapes(1, k), b \in Shapes(k + 1, n)} : k \in 0..n}

OneList(lo, hi) == IF lo > hi THEN <<>> ELSE <<St(TRUE, lo, hi - lo + 1, "none")>>
Singles(lo, hi) == [i \in 1..(IF lo > hi THEN 0 ELSE hi - lo + 1) |-> St(FALSE, lo + i - 1, 1, "none")]
Mixed(lo, hi)   == IF hi - lo + 1 >= 3 THEN OneList(lo, lo + 1) \o Singles(lo + 2, hi)
                   ELSE IF hi - lo + 1 = 2 THEN Singles(lo, lo) \o OneList(hi, hi) ELSE OneList(lo, hi)

NoDeps(n)  == [i \in 1..n |-> {}]
NoSched(n) == [i \in 1..n |-> 0]
Ident(n)   == [i \in 1..n |-> i]
MkT(f, sch, d, nv, unk, t) == [files |-> f, sched |-> sch, deps |-> d, never |-> nv, unknown |-> unk, tgt |-> t,
                               builtin |-> {}, mode |-> "book"]
Mk(f, sch, d, nv, unk) == MkT(f, sch, d, nv, unk, Ident(Len(sch)))
Api(s)     == [s EXCEPT !.mode = "api"]          \* the provider asks textX whether its deps are resolved
Builtin(s) == [s EXCEPT !.builtin = s.unknown]   \* the unknown names are builtins of the metamodel

\* several references of one list pointing at the same target: all partitions of the references
Partitions(n) == {t \in [1..n -> 1..n] : \A i \in 1..n : t[i] <= i /\ t[t[i]] = t[i]}

\* objects with several reference attributes / nested objects sharing their start position (one file)
\*   Node2: list a, list b of one object;  Node3: list, list, single of one object;
\*   Tgt: the list of a first child, then the same-named list of its parent
GroupAt(lo, n) ==
  {<<St(TRUE, lo, a, "none"), St(TRUE, lo + a, n - a, "attr")>> : a \in 1..(n - 1)}
  \cup {<<St(TRUE, lo, a, "none"), St(TRUE, lo + a, n - a, "parent")>> : a \in 1..(n - 1)}
  \cup {<<St(TRUE, lo, a, "none"), St(TRUE, lo + a, n - 1 - a, "attr"), St(FALSE, lo + n - 1, 1, "attr")>> : a \in 1..(n - 2)}
GroupLayouts(n) == {<<g>> : g \in GroupAt(1, n)} \cup {<<Singles(1, 1) \o g>> : g \in GroupAt(2, n - 1)}

\* Families are sequences of sets (see ScenarioSets in LoaderResolve).
\* --- C08: every list shape x every postponement schedule -------------------
C08Of(n, F, maxp) == {Mk(f, sch, NoDeps(n), {}, {}) : f \in F, sch \in [1..n -> 0..maxp]}
C08Full(u)  == [i \in 1..5 |-> C08Of(i - 1, Files1(i - 1), 2)] \o [n \in 1..3 |-> C08Of(n, Files2(n), 2)]
C08Mc(u)    == [i \in 1..4 |-> C08Of(i - 1, Files1(i - 1), 2)] \o [n \in 1..2 |-> C08Of(n, Files2(n), 2)]
C08Dup(u)   == [i \in 1..3 |-> {MkT(f, sch, NoDeps(i + 1), {}, {}, t) :
                                   f \in {<<OneList(1, i + 1)>>, <<Mixed(1, i + 1)>>},
                                   sch \in [1..(i + 1) -> 0..2], t \in Partitions(i + 1) \ {Ident(i + 1)}}]
\* references whose provider answers None (after its postponements) and that end in the builtins
C08Bi(u)    == [i \in 1..4 |-> {Builtin(Mk(f, sch, NoDeps(i), {}, unk)) :
                                   f \in {<<OneList(1, i)>>, <<Mixed(1, i)>>}, sch \in [1..i -> 0..2],
                                   unk \in IF i < 4 THEN SUBSET (1..i) \ {{}} ELSE {{r} : r \in 1..i}}]
C08Grp(u)   == [i \in 1..3 |-> C08Of(i + 1, GroupLayouts(i + 1), 2)]
C08Small(u) == [i \in 1..4 |-> C08Of(i - 1, Files1(i - 1) \cup Files2(i - 1), 2)]

\* --- C09: every dependency structure (no self loops: that is `never`) -------
DepsOf(n) == {d \in [1..n -> SUBSET (1..n)] : \A i \in 1..n : i \notin d[i]}
LayoutsAll(n) == {<<OneList(1, n)>>, <<Singles(1, n)>>, <<Mixed(1, n)>>}
                 \cup {<<OneList(1, k), Singles(k + 1, n)>> : k \in 0..n}
                 \cup {<<Singles(1, k), Mixed(k + 1, n)>> : k \in 0..n}
LayoutsFew(n)  == {<<Mixed(1, n)>>, <<Singles(1, n \div 2), OneList(n \div 2 + 1, n)>>}
LayoutsMore(n) == LayoutsFew(n) \cup {<<OneList(1, 1), Singles(2, n)>>, <<Mixed(1, n - 1), Singles(n, n)>>}
C09Of(n, L, NV) == {Mk(f, NoSched(n), d, nv, {}) : f \in L, d \in DepsOf(n), nv \in NV}
C09Small(u) == [i \in 1..4 |-> C09Of(i - 1, LayoutsAll(i - 1), SUBSET (1..(i - 1)))]
C09Mc(u)    == [i \in 1..4 |-> C09Of(i - 1, LayoutsFew(i - 1), SUBSET (1..(i - 1)))]
               \o [i \in 1..3 |-> {Api(s) : s \in C09Of(i, LayoutsFew(i), SUBSET (1..i))}]
C09Grp(u)   == [i \in 1..2 |-> C09Of(i + 1, GroupLayouts(i + 1), SUBSET (1..(i + 1)))]
C09GrpFour(u) == <<C09Of(4, GroupLayouts(4), {{}})>>
C09Dup(u)   == <<{MkT(f, NoSched(3), d, {}, {}, t) : f \in {<<OneList(1, 3)>>, <<Singles(1, 1), OneList(2, 3)>>},
                    d \in DepsOf(3), t \in Partitions(3) \ {Ident(3)}}>>
\* the provider learns through textX whether its deps are resolved
C09Api(u)   == [i \in 1..3 |-> {Api(s) : s \in C09Of(i, LayoutsFew(i) \cup {<<Singles(1, i)>>} \cup GroupLayouts(i), SUBSET (1..i))}]
C09Four(u)  == <<C09Of(4, {<<Mixed(1, 4)>>}, {{}}), {Api(s) : s \in C09Of(4, {<<Singles(1, 2), OneList(3, 4)>>}, {{}})}>>
C09FourApi(u) == <<{Api(s) : s \in C09Of(4, LayoutsMore(4), {{}})}>>
C09FourNever(u) == <<C09Of(4, LayoutsMore(4), SUBSET (1..4))>>
\* schedules, dependencies, never-resolving and unknown references together
MixedOf(n) == {IF f = <<Mixed(1, n)>> THEN Builtin(Mk(f, sch, d, nv, unk)) ELSE Mk(f, sch, d, nv, unk) :
                 f \in {<<Mixed(1, n)>>, <<Singles(1, 1), Mixed(2, n)>>},
                 sch \in [1..n -> 0..1], d \in {e \in DepsOf(n) : \A i \in 1..n : Cardinality(e[i]) <= 1},
                 nv \in {{}} \cup {{r} : r \in 1..n},
                 unk \in {{}} \cup {{r} : r \in 1..n}}
MixedSmall(u) == [n \in 1..3 |-> MixedOf(n)]

\* --- selection of a family and of a shard through the environment ----------
NatOf(str) == CHOOSE i \in 0..255 : ToString(i) = str
SetCode(S) == LET RECURSIVE C(_)
                  C(T) == IF T = {} THEN 0 ELSE LET x == CHOOSE y \in T : TRUE IN 2^(x - 1) + C(T \ {x})
              IN C(S)
ScCode(s)  == LET n == NOf(s)
                  RECURSIVE Sum(_)
                  Sum(i) == IF i > n THEN 0 ELSE (SetCode(s.deps[i]) + s.sched[i] + s.tgt[i]) * (2 * i + 1) + Sum(i + 1)
              IN Sum(1) + SetCode(s.never) + SetCode(s.unknown) + Len(s.files) + Len(s.files[1]) + (IF s.mode = "api" THEN 1 ELSE 0)
Family(name) ==
  CASE name = "c08"      -> C08Full(0) \o C08Dup(0) \o C08Grp(0) \o C08Bi(0)
    [] name = "c08plain" -> C08Full(0)
    [] name = "c08small" -> C08Small(0)
    [] name = "c08mc"    -> C08Mc(0)
    [] name = "c09mc"    -> C09Mc(0)
    [] name = "c09small" -> C09Small(0)
    [] name = "c09four"  -> C09Four(0)
    [] name = "c09never" -> C09FourNever(0)
    [] name = "mixed"    -> MixedSmall(0)
    [] name = "c09quick" -> C09Small(0) \o C09Four(0) \o MixedSmall(0) \o C09Grp(0) \o C09Dup(0) \o C09Api(0)
    [] name = "c09thorough" -> C09Small(0) \o C09FourNever(0) \o MixedSmall(0) \o C09Grp(0) \o C09GrpFour(0) \o C09Dup(0) \o C09Api(0) \o C09FourApi(0)
EnvScenarioSets == LET nsh == NatOf(IOEnv.VT_NSHARDS)
                       sh  == NatOf(IOEnv.VT_SHARD)
                       fam == Family(IOEnv.VT_FAMILY)
                   IN [i \in DOMAIN fam |-> {s \in fam[i] : ScCode(s) % nsh = sh}]
EnvDev   == IF IOEnv.VT_DEV = "" THEN {} ELSE {IOEnv.VT_DEV}
EnvOrder == IOEnv.VT_ORDER

ASSUME \A i \in DOMAIN EnvScenarioSets : \A s \in EnvScenarioSets[i] : WellFormed(s)

\* --- S->I: the scenario with the outcome the module prescribes ---------------
EmitFinal ==
  Idle => PrintT("FINAL|" \o ToJson([sc |-> sc, kind |-> outcome.kind, names |-> NameTargets,
                                     attrs |-> AttrTargets, round |-> round, attempts |-> attempts]))

=============================================================================
