----------------------------- MODULE LoaderProc -----------------------------
(***************************************************************************)
(* The tail of a textX model load: endconstruction -> object processors -> *)
(* tool support (DESIGN.md Appendix K), for properties C13, C33 and C34.   *)
(*                                                                         *)
(* A scenario is an abstract forest of model objects (one containment tree *)
(* per file, file 1 is the main model), the references it contains, a      *)
(* processor table and, optionally, one processor that raises:             *)
(*                                                                         *)
(*   objs  : Seq of [kind, parent, slot, file, start, end, line, col,      *)
(*                   namelen]      numbered in textual (pre-)order;        *)
(*                                 parent = 0 for the root of a file       *)
(*   refs  : Seq of [owner, start, len, target, sched]   textual order;    *)
(*           len = length of the reference text, sched = how often the     *)
(*           scope provider answers Postponed before it resolves           *)
(*   files : Seq of file names, "" = loaded from a string without name     *)
(*   lang  : per file the language (1 or 2) its model belongs to           *)
(*   procs : rules that have an object processor (language 1; procs2,      *)
(*           repl2, replk2 are the registrations of language 2)            *)
(*   repl  : rules whose processor returns a replacement value, replk the  *)
(*           kind of that value ("str" = a string naming rule and object,  *)
(*           otherwise a falsy Python value: "zero" "empty" "list" ...)    *)
(*   fault : [on, proc ("obj"|"match"), obj, rule, exc, wrap,              *)
(*            hline, hcol, hnchar, hfile (which fields the raised error    *)
(*            carries), sline, scol, snchar, sfile (their values),         *)
(*            mfile, mline, mcol (where the failing match starts)]         *)
(* An object of kind "Plain" is a plain value (the match-rule alternative  *)
(* of an abstract rule) held by a containment attribute: no rule of its    *)
(* own, no span of its own, only the declared rule's processor sees it.    *)
(*                                                                         *)
(* Meta gives, per object kind (= the object's own rule), its containment  *)
(* attributes in meta-attribute order: [name, many, decl] with decl the    *)
(* rule the attribute is typed with in the grammar (the "declared" rule).  *)
(*                                                                         *)
(* The module has two faces that (M) shows to agree:                       *)
(*  - functions  WalkAll / FinalOf / ErrLoc / Xrefs / RuleDict  of a       *)
(*    scenario (used as the oracle of the conformance passes), and         *)
(*  - a state machine  Construct -> ResolveRound* -> EndConstruction ->    *)
(*    CallProcessor* -> ToolSupport  whose CallProcessor may take sibling  *)
(*    subtrees in any order (the property only orders containers after     *)
(*    their contents), used for invariants and for trace validation.       *)
(* Deviation clauses (what the code is known to do instead) are named in   *)
(* Dev; with Dev = {} the module states the documented behaviour.          *)
(***************************************************************************)
EXTENDS Integers, Sequences, FiniteSets, TLC

CONSTANTS
  Meta,        \* [kind |-> Seq of [name, many, decl]]
  Scenarios,   \* Seq of the scenarios this configuration explores
  Dev          \* deviation clauses switched on

VARIABLES
  sid,      \* index of the scenario being run (never changes)
  pc,       \* "construct" "resolve" "endconstruction" "processors" "done" "failed"
  round,    \* resolution round about to run
  xr,       \* per file: reference ids in the order they were resolved
  inited,   \* user-class objects initialised (end of model construction)
  calls,    \* Seq of [obj, rule, linked, inited]  object processor calls so far
  cont,     \* [obj -> [slot index -> Seq of items]]  containment attribute contents
  err,      \* the error the load failed with
  xrefs,    \* per file: _pos_crossref_list
  rdict     \* per file: _pos_rule_dict as an ordered list

vars == <<sid, pc, round, xr, inited, calls, cont, err, xrefs, rdict>>

\* TLC re-evaluates a constant that a configuration substitutes by an operator at every
\* use, but evaluates a constant definition once: the formulas below use these.
ScenarioSeq == Scenarios
TheMeta == Meta
TheDev == Dev
sc == ScenarioSeq[sid]      \* the scenario

----------------------------------------------------------------------------
\* generic helpers
RangeOf(s) == {s[i] : i \in 1..Len(s)}
Ids(n) == [i \in 1..n |-> i]
RECURSIVE Cat(_)
Cat(ss) == IF ss = <<>> THEN <<>> ELSE Head(ss) \o Cat(Tail(ss))
RECURSIVE SeqOfSet(_)
SeqOfSet(S) == IF S = {} THEN <<>>
               ELSE LET x == CHOOSE x \in S : TRUE IN <<x>> \o SeqOfSet(S \ {x})
Count(s, P(_)) == Cardinality({i \in 1..Len(s) : P(s[i])})
IndexIn(s, x) == CHOOSE i \in 1..Len(s) : s[i] = x

NotJudged == 0 - 1              \* a numeric field the property says nothing about
NotJudgedFile == "<not judged>"
NoNum == 0 - 2                  \* "None" for line / col / nchar (0 is a value a processor may supply)
NoFile == "<none>"              \* "None" for a file name ("" is a value a processor may supply)

----------------------------------------------------------------------------
\* the forest
N(s) == Len(s.objs)
Objs(s) == 1..N(s)
Kind(s, o) == s.objs[o].kind
Par(s, o) == s.objs[o].parent
FileOf(s, o) == s.objs[o].file
Span(s, o) == <<s.objs[o].start, s.objs[o].end>>
SlotsOf(s, o) == TheMeta[Kind(s, o)]
SlotIdx(s, o) == CHOOSE k \in 1..Len(SlotsOf(s, Par(s, o))) : SlotsOf(s, Par(s, o))[k].name = s.objs[o].slot
\* the rule the grammar declares at the place that holds o (its own rule for a root)
Decl(s, o) == IF Par(s, o) = 0 THEN Kind(s, o) ELSE SlotsOf(s, Par(s, o))[SlotIdx(s, o)].decl
\* the contents of containment attribute k of o, in list order
Kids(s, o, k) == SelectSeq(Ids(N(s)), LAMBDA c : Par(s, c) = o /\ s.objs[c].slot = SlotsOf(s, o)[k].name)
Roots(s) == SelectSeq(Ids(N(s)), LAMBDA o : Par(s, o) = 0)
RECURSIVE IsAnc(_, _, _)
IsAnc(s, a, o) == LET p == Par(s, o) IN p # 0 /\ (p = a \/ IsAnc(s, a, p))
RECURSIVE Depth(_, _)
Depth(s, o) == IF Par(s, o) = 0 THEN 0 ELSE 1 + Depth(s, Par(s, o))
\* span a contains the different span b
SpanContains(a, b) == a # b /\ a[1] <= b[1] /\ b[2] <= a[2]

----------------------------------------------------------------------------
\* C13: which processors are called for an object, and with what effect
\* Every file is a model of one of (at most) two languages with the same grammar but their own
\* processor registrations: lang[f] = 1 -> procs/repl/replk, lang[f] = 2 -> procs2/repl2/replk2.
\* An object is processed with the table of the language of ITS model.
Lang(s, o) == s.lang[FileOf(s, o)]
ProcsFor(s, o) == IF Lang(s, o) = 1 THEN s.procs ELSE s.procs2
ReplFor(s, o) == IF Lang(s, o) = 1 THEN s.repl ELSE s.repl2
ReplkFor(s, o) == IF Lang(s, o) = 1 THEN s.replk ELSE s.replk2
HasProc(s, o, r) == r \in RangeOf(ProcsFor(s, o))
Replaces(s, o, r) == r \in RangeOf(ReplFor(s, o))
\* own-rule processor (only when the declared rule differs), then the declared rule's
CallsOf(s, o) ==
  (IF Kind(s, o) # Decl(s, o) /\ HasProc(s, o, Kind(s, o)) THEN <<Kind(s, o)>> ELSE <<>>)
  \o (IF HasProc(s, o, Decl(s, o)) THEN <<Decl(s, o)>> ELSE <<>>)
ExpectedCount(s, o, r) == Cardinality({i \in 1..Len(CallsOf(s, o)) : CallsOf(s, o)[i] = r})
Item(o) == "o" \o ToString(o)
ReplKind(s, o, r) == ReplkFor(s, o)[IndexIn(ReplFor(s, o), r)]
\* the value the processor of rule r returns for object o: a string naming both, or a
\* falsy value (which still is "not None" and therefore replaces the object)
ReplItem(s, r, o) == IF ReplKind(s, o, r) = "str" THEN "r:" \o r \o ":" \o ToString(o)
                     ELSE "f:" \o ReplKind(s, o, r)
\* what the containing attribute holds afterwards: the own-rule result wins
Result(s, o) ==
  IF Kind(s, o) # Decl(s, o) /\ HasProc(s, o, Kind(s, o)) /\ Replaces(s, o, Kind(s, o)) THEN ReplItem(s, Kind(s, o), o)
  ELSE IF HasProc(s, o, Decl(s, o)) /\ Replaces(s, o, Decl(s, o)) THEN ReplItem(s, Decl(s, o), o)
  ELSE Item(o)

CallRec(o, r) == [obj |-> o, rule |-> r, linked |-> TRUE, inited |-> TRUE]
\* the canonical walk: containment attributes in meta-attribute order, lists in
\* list order, contents first, then the object itself
RECURSIVE Walk(_, _)
Walk(s, o) ==
  LET sl == SlotsOf(s, o)
      below == Cat([k \in 1..Len(sl) |->
                     LET ks == Kids(s, o, k) IN Cat([j \in 1..Len(ks) |-> Walk(s, ks[j])])])
      own == CallsOf(s, o)
  IN below \o [i \in 1..Len(own) |-> CallRec(o, own[i])]
WalkAll(s) == LET rs == Roots(s) IN Cat([i \in 1..Len(rs) |-> Walk(s, rs[i])])

\* an object is still in the model iff nothing on its path was replaced (a root's
\* return value is ignored)
RECURSIVE Reach(_, _)
Reach(s, o) == Par(s, o) = 0 \/ (Reach(s, Par(s, o)) /\ Result(s, o) = Item(o))
FinalSlots(s, o) == [k \in 1..Len(SlotsOf(s, o)) |->
                       LET ks == Kids(s, o, k) IN [j \in 1..Len(ks) |-> Result(s, ks[j])]]
FinalOf(s) == [o \in 1..N(s) |-> [reach |-> Reach(s, o),
                                  slots |-> IF Reach(s, o) THEN FinalSlots(s, o) ELSE <<>>]]

\* the same projection of a contents function (what can be observed of the machine state)
RECURSIVE ReachC(_, _, _)
ReachC(s, ct, o) ==
  \/ Par(s, o) = 0
  \/ /\ ReachC(s, ct, Par(s, o))
     /\ LET k == SlotIdx(s, o) IN ct[Par(s, o)][k][IndexIn(Kids(s, Par(s, o), k), o)] = Item(o)
FinalView(s, ct) == [o \in 1..N(s) |-> [reach |-> ReachC(s, ct, o),
                                        slots |-> IF ReachC(s, ct, o) THEN ct[o] ELSE <<>>]]
InitCont(s) == [o \in 1..N(s) |-> [k \in 1..Len(SlotsOf(s, o)) |->
                  LET ks == Kids(s, o, k) IN [j \in 1..Len(ks) |-> Item(ks[j])]]]

----------------------------------------------------------------------------
\* C33: the error-location decision table
\*   exc = "txnoloc"  the processor raises TextXError without location
\*         "txsome"   ... carrying the fields flagged by hline/hcol/hnchar/hfile
\*         "other"    another exception
\*   wrap             the processor is decorated with textxerror_wrap
FileName(s, f) == IF s.files[f] = "" THEN NoFile ELSE s.files[f]
PlainSite(s) == s.fault.proc = "obj" /\ Kind(s, s.fault.obj) = "Plain"
\* where the processed text is; a plain value has no location of its own
Loc(s) ==
  LET f == s.fault IN
  IF PlainSite(s)
  THEN [file |-> NotJudgedFile, line |-> NotJudged, col |-> NotJudged, nchar |-> NotJudged]
  ELSE IF f.proc = "obj"
  THEN [file |-> FileName(s, FileOf(s, f.obj)), line |-> s.objs[f.obj].line, col |-> s.objs[f.obj].col,
        nchar |-> s.objs[f.obj].end - s.objs[f.obj].start]
  ELSE [file |-> FileName(s, f.mfile), line |-> f.mline, col |-> f.mcol, nchar |-> NotJudged]

ErrLoc(s, D) ==
  LET f == s.fault
      loc == Loc(s)
      located(hl, hc, hn, hf, byWrapper) ==
        [cls |-> "TextXError",
         filename |-> IF hf THEN f.sfile ELSE loc.file,
         line |-> IF hl THEN f.sline ELSE loc.line,
         col |-> IF hc THEN f.scol ELSE loc.col,
         nchar |-> IF hn THEN f.snchar
                   ELSE IF f.proc = "match" \/ PlainSite(s) THEN NotJudged
                   ELSE IF "NcharNotFilled" \in D /\ ~byWrapper THEN NoNum
                   ELSE loc.nchar]
  IN CASE f.exc = "other" /\ ~f.wrap ->
            [cls |-> "Other", filename |-> NoFile, line |-> NoNum, col |-> NoNum, nchar |-> NoNum]
       [] f.exc = "other" /\ f.wrap -> located(FALSE, FALSE, FALSE, FALSE, f.proc = "obj")
       [] f.exc = "txnoloc" -> located(FALSE, FALSE, FALSE, FALSE, FALSE)
       [] f.exc = "txsome" -> located(f.hline, f.hcol, f.hnchar, f.hfile, FALSE)
NoErr == [cls |-> "-", filename |-> NoFile, line |-> NoNum, col |-> NoNum, nchar |-> NoNum]

----------------------------------------------------------------------------
\* C34: tool-support lists
NF(s) == Len(s.files)
RefIds(s) == Ids(Len(s.refs))
RefFile(s, r) == FileOf(s, s.refs[r].owner)
RefsOfFile(s, f) == SelectSeq(RefIds(s), LAMBDA r : RefFile(s, r) = f)      \* textual order
MaxSched(s) == IF s.refs = <<>> THEN 0
               ELSE CHOOSE m \in {s.refs[r].sched : r \in 1..Len(s.refs)} :
                      \A r \in 1..Len(s.refs) : s.refs[r].sched <= m
\* references of file f in the order the resolution loop resolves them
ResOrder(s, f) == Cat([q \in 1..(MaxSched(s) + 1) |->
                        SelectSeq(RefsOfFile(s, f), LAMBDA r : s.refs[r].sched = q - 1)])
\* every round resolves something (otherwise the load fails: not a scenario of this module)
ValidSchedule(s) == s.refs = <<>> \/ \A q \in 0..MaxSched(s) : \E r \in 1..Len(s.refs) : s.refs[r].sched = q

XrefEntry(s, r, D) ==
  LET x == s.refs[r] t == s.objs[x.target] IN
  [start |-> x.start,
   end |-> x.start + (IF "XrefEndFromTargetName" \in D THEN t.namelen ELSE x.len),
   dfile |-> s.files[t.file], dstart |-> t.start, dend |-> t.end]
XrefList(s, order, D) ==
  LET es == [i \in 1..Len(order) |-> XrefEntry(s, order[i], D)] IN
  IF "XrefsInResolutionOrder" \in D THEN es
  ELSE SortSeq(es, LAMBDA a, b : a.start < b.start)
Xrefs(s, D) == [f \in 1..NF(s) |-> XrefList(s, ResOrder(s, f), D)]

\* the objects of file f (plain values are not objects and have no entry)
FileObjs(s, f) == {o \in Objs(s) : FileOf(s, o) = f /\ Kind(s, o) # "Plain"}
Holder(s, f, sp, D) ==
  LET C == {o \in FileObjs(s, f) : Span(s, o) = sp} IN
  IF "RuleDictOuterOverwrites" \in D
  THEN CHOOSE o \in C : \A p \in C : Depth(s, o) <= Depth(s, p)
  ELSE CHOOSE o \in C : \A p \in C : Depth(s, o) >= Depth(s, p)
\* later start first; among spans that start together the shorter (= contained) one first
DictBefore(a, b, D) ==
  \/ a[1] > b[1]
  \/ a[1] = b[1] /\ (IF "RuleDictReverseSort" \in D THEN a[2] > b[2] ELSE a[2] < b[2])
RuleDictOf(s, f, D) ==
  LET keys == SortSeq(SeqOfSet({Span(s, o) : o \in FileObjs(s, f)}), LAMBDA a, b : DictBefore(a, b, D))
  IN [i \in 1..Len(keys) |-> [start |-> keys[i][1], end |-> keys[i][2], obj |-> Holder(s, f, keys[i], D)]]
RuleDict(s, D) == [f \in 1..NF(s) |-> RuleDictOf(s, f, D)]

----------------------------------------------------------------------------
\* the state machine
Init ==
  /\ sid \in 1..Len(ScenarioSeq)
  /\ pc = "construct" /\ round = 0 /\ inited = FALSE /\ calls = <<>>
  /\ xr = [f \in 1..NF(sc) |-> <<>>]
  /\ cont = InitCont(sc)
  /\ err = NoErr
  /\ xrefs = [f \in 1..NF(sc) |-> <<>>]
  /\ rdict = [f \in 1..NF(sc) |-> <<>>]

FaultAt(kind) == sc.fault.on /\ sc.fault.proc = kind

\* objects are built, match-rule processors run while the text is converted
Construct ==
  /\ pc = "construct"
  /\ IF FaultAt("match")
     THEN err' = ErrLoc(sc, TheDev) /\ pc' = "failed"
     ELSE err' = err /\ pc' = "resolve"
  /\ UNCHANGED <<sid, round, xr, inited, calls, cont, xrefs, rdict>>

AllResolved == \A r \in 1..Len(sc.refs) : sc.refs[r].sched < round

\* one pass of the resolution loop over all models
ResolveRound ==
  /\ pc = "resolve"
  /\ IF AllResolved
     THEN pc' = "endconstruction" /\ UNCHANGED <<round, xr>>
     ELSE /\ xr' = [f \in 1..NF(sc) |->
                      xr[f] \o SelectSeq(RefsOfFile(sc, f), LAMBDA r : sc.refs[r].sched = round)]
          /\ round' = round + 1 /\ pc' = pc
  /\ UNCHANGED <<sid, inited, calls, cont, err, xrefs, rdict>>

\* _end_model_construction of every model: user objects get their __init__
EndConstruction ==
  /\ pc = "endconstruction"
  /\ inited' = TRUE /\ pc' = "processors"
  /\ UNCHANGED <<sid, round, xr, calls, cont, err, xrefs, rdict>>

Made(o) == Count(calls, LAMBDA c : c.obj = o)
Finished(o) == Made(o) = Len(CallsOf(sc, o))
CanCall(o) == ~Finished(o) /\ \A d \in Objs(sc) : IsAnc(sc, o, d) => Finished(d)

CallProcessor(o) ==
  /\ pc = "processors" /\ CanCall(o)
  /\ LET r == CallsOf(sc, o)[Made(o) + 1]
         last == Made(o) + 1 = Len(CallsOf(sc, o))
         p == Par(sc, o)
     IN /\ calls' = Append(calls, [obj |-> o, rule |-> r, linked |-> AllResolved, inited |-> inited])
        /\ IF FaultAt("obj") /\ sc.fault.obj = o /\ sc.fault.rule = r
           THEN err' = ErrLoc(sc, TheDev) /\ pc' = "failed" /\ cont' = cont
           ELSE /\ err' = err /\ pc' = pc
                /\ cont' = IF last /\ p # 0 /\ Result(sc, o) # Item(o)
                           THEN LET k == SlotIdx(sc, o) j == IndexIn(Kids(sc, p, k), o) IN
                                [cont EXCEPT ![p][k][j] = Result(sc, o)]
                           ELSE cont
  /\ UNCHANGED <<sid, round, xr, inited, xrefs, rdict>>

ToolSupport ==
  /\ pc = "processors" /\ \A o \in Objs(sc) : Finished(o)
  /\ xrefs' = [f \in 1..NF(sc) |-> XrefList(sc, xr[f], TheDev)]
  /\ rdict' = RuleDict(sc, TheDev)
  /\ pc' = "done"
  /\ UNCHANGED <<sid, round, xr, inited, calls, cont, err>>

Next == \/ Construct \/ ResolveRound \/ EndConstruction
        \/ \E o \in Objs(sc) : CallProcessor(o)
        \/ ToolSupport

Spec == Init /\ [][Next]_vars

----------------------------------------------------------------------------
\* Properties.  C13
C13_Order ==
  \A i \in 1..Len(calls) :
    /\ calls[i].linked /\ calls[i].inited
    /\ \A j \in 1..Len(calls) : IsAnc(sc, calls[j].obj, calls[i].obj) => i < j

C13_OwnFirst ==
  \A i, j \in 1..Len(calls) :
    (calls[i].obj = calls[j].obj /\ calls[i].rule = Kind(sc, calls[i].obj)
       /\ calls[j].rule # calls[i].rule) => i < j

CallCount(o, r) == Count(calls, LAMBDA c : c.obj = o /\ c.rule = r)
Rules == UNION {{Kind(sc, o), Decl(sc, o)} : o \in Objs(sc)} \cup RangeOf(sc.procs) \cup RangeOf(sc.procs2)
\* 1 for the own rule when registered; 1 for a different, registered declared rule; else 0
DocCount(o, r) ==
  IF ~HasProc(sc, o, r) THEN 0
  ELSE IF r = Kind(sc, o) THEN 1
  ELSE IF r = Decl(sc, o) THEN 1 ELSE 0
C13_Once ==
  \A o \in Objs(sc), r \in Rules :
    /\ CallCount(o, r) <= DocCount(o, r)
    /\ (pc = "done" => CallCount(o, r) = DocCount(o, r))

\* a non-None return value is what the containing attribute holds afterwards
C13_Replaced ==
  pc = "done" => /\ cont = [o \in 1..N(sc) |-> FinalSlots(sc, o)]
                 /\ FinalView(sc, cont) = FinalOf(sc)

\* the canonical walk is one of the behaviours of CallProcessor
RECURSIVE WalkOk(_, _)
WalkOk(w, n) ==
  \/ n > Len(w)
  \/ /\ LET o == w[n].obj
            made == Cardinality({i \in 1..(n - 1) : w[i].obj = o})
        IN /\ made < Len(CallsOf(sc, o)) /\ w[n].rule = CallsOf(sc, o)[made + 1]
           /\ \A d \in Objs(sc) : IsAnc(sc, o, d) =>
                Cardinality({i \in 1..(n - 1) : w[i].obj = d}) = Len(CallsOf(sc, d))
     /\ WalkOk(w, n + 1)
C13_WalkIsBehaviour ==
  pc = "resolve" /\ round = 0 =>
    LET w == WalkAll(sc) IN
    /\ WalkOk(w, 1)
    /\ \A o \in Objs(sc) : Cardinality({i \in 1..Len(w) : w[i].obj = o}) = Len(CallsOf(sc, o))

\* C33: stated on the error, not through ErrLoc
Has == IF sc.fault.exc = "txsome"
       THEN [line |-> sc.fault.hline, col |-> sc.fault.hcol, nchar |-> sc.fault.hnchar, file |-> sc.fault.hfile]
       ELSE [line |-> FALSE, col |-> FALSE, nchar |-> FALSE, file |-> FALSE]
Converted == sc.fault.exc # "other" \/ sc.fault.wrap
C33_Located ==
  pc = "failed" =>
    IF ~Converted THEN err.cls = "Other"
    ELSE LET f == sc.fault
             o == f.obj
         IN /\ err.cls = "TextXError"
            \* what the processor supplied is kept, even when it is 0 or ""
            /\ Has.file => err.filename = f.sfile
            /\ Has.line => err.line = f.sline
            /\ Has.col => err.col = f.scol
            /\ Has.nchar => err.nchar = f.snchar
            \* the rest is the place of the processed object or match
            /\ ~PlainSite(sc) =>
                 /\ ~Has.file => err.filename = FileName(sc, IF f.proc = "obj" THEN FileOf(sc, o) ELSE f.mfile)
                 /\ ~Has.line => err.line = (IF f.proc = "obj" THEN sc.objs[o].line ELSE f.mline)
                 /\ ~Has.col => err.col = (IF f.proc = "obj" THEN sc.objs[o].col ELSE f.mcol)
C33_Nchar ==
  pc = "failed" /\ Converted /\ sc.fault.proc = "obj" /\ ~PlainSite(sc) /\ ~Has.nchar =>
    err.nchar = sc.objs[sc.fault.obj].end - sc.objs[sc.fault.obj].start
\* nothing is called after the failing processor, nothing is replaced by it
C33_StopsAtFault ==
  pc = "failed" /\ sc.fault.proc = "obj" =>
    /\ calls # <<>> /\ calls[Len(calls)].obj = sc.fault.obj /\ calls[Len(calls)].rule = sc.fault.rule
    /\ \A i \in 1..(Len(calls) - 1) : ~(calls[i].obj = sc.fault.obj /\ calls[i].rule = sc.fault.rule)

\* C34
Done == pc = "done"
C34_XrefSorted ==
  Done => \A f \in 1..NF(sc) : \A i, j \in 1..Len(xrefs[f]) : i < j => xrefs[f][i].start < xrefs[f][j].start
C34_XrefOnce ==
  Done => \A f \in 1..NF(sc) :
            /\ Len(xrefs[f]) = Len(RefsOfFile(sc, f))
            /\ \A r \in RangeOf(RefsOfFile(sc, f)) :
                 Cardinality({i \in 1..Len(xrefs[f]) : xrefs[f][i].start = sc.refs[r].start}) = 1
C34_XrefExact ==
  Done => \A f \in 1..NF(sc) : \A i \in 1..Len(xrefs[f]) :
            \E r \in RangeOf(RefsOfFile(sc, f)) :
              LET x == sc.refs[r] t == sc.objs[x.target] e == xrefs[f][i] IN
              /\ e.start = x.start /\ e.end = x.start + x.len
              /\ e.dfile = sc.files[t.file] /\ e.dstart = t.start /\ e.dend = t.end
\* every span of the file is a key exactly once and is mapped to an object with that span,
\* the innermost one
C34_DictInnermost ==
  Done => \A f \in 1..NF(sc) :
            /\ {<<rdict[f][i].start, rdict[f][i].end>> : i \in 1..Len(rdict[f])} = {Span(sc, o) : o \in FileObjs(sc, f)}
            /\ Len(rdict[f]) = Cardinality({Span(sc, o) : o \in FileObjs(sc, f)})
            /\ \A i \in 1..Len(rdict[f]) :
                 LET e == rdict[f][i] IN
                 /\ e.obj \in FileObjs(sc, f) /\ Span(sc, e.obj) = <<e.start, e.end>>
                 /\ \A o \in FileObjs(sc, f) : Span(sc, o) = Span(sc, e.obj) => ~IsAnc(sc, e.obj, o)
\* every span comes before all different spans that contain it
C34_DictInnerFirst ==
  Done => \A f \in 1..NF(sc) : \A i, j \in 1..Len(rdict[f]) :
            SpanContains(<<rdict[f][j].start, rdict[f][j].end>>, <<rdict[f][i].start, rdict[f][i].end>>) => i < j
\* ... and the list is sorted by position, later positions first
C34_DictByStart ==
  Done => \A f \in 1..NF(sc) : \A i, j \in 1..Len(rdict[f]) : i < j => rdict[f][i].start >= rdict[f][j].start
\* the machine and the functions agree
C34_Functions ==
  Done => xrefs = Xrefs(sc, TheDev) /\ rdict = RuleDict(sc, TheDev)
          /\ \A f \in 1..NF(sc) : xr[f] = ResOrder(sc, f)

\* well-formedness of what the configuration feeds in (checked as an invariant, too)
ScenarioOK ==
  /\ ValidSchedule(sc)
  /\ \A o \in Objs(sc) :
       /\ Par(sc, o) < o
       /\ Par(sc, o) # 0 => /\ FileOf(sc, Par(sc, o)) = FileOf(sc, o)
                            /\ Span(sc, Par(sc, o))[1] <= Span(sc, o)[1]
                            /\ Span(sc, o)[2] <= Span(sc, Par(sc, o))[2]
  /\ sc.fault.on /\ sc.fault.proc = "obj" => ExpectedCount(sc, sc.fault.obj, sc.fault.rule) = 1
=============================================================================
