------------------------- MODULE TraceLoaderUser -------------------------
(* I->S: event logs recorded from real loads (vt/drive/userclasses.py)     *)
(* validated as behaviours of LoaderUser!Next.  One TLC run checks many    *)
(* traces: `tid` is chosen in TraceInit, `l` counts consumed events, the   *)
(* TLC register tid keeps the furthest l reached.  Steps of the module     *)
(* that nothing outside can see (ev' = NoEv) are taken silently.  A trace  *)
(* is accepted iff all its events were consumed.                           *)
EXTENDS LoaderUser, IOUtils

Traces == JsonDeserialize(IOEnv.VT_TRACES)   \* Seq of [sc |-> scenario, mode |-> "C14" | "C15", events |-> Seq of event]
\* mode C14 does not judge what is retained after a failure nor the follow-up comparison (that is C15)
\* event = [ev, o, k, s, args: Seq(STRING), refs: Seq(Nat), b, hasst, si: Seq(Nat), ss: Seq(Seq(Nat)), so: Seq(BOOLEAN)]

VARIABLES tid, l
tvars == <<vars, tid, l>>

ASSUME \A t \in 1..Len(Traces) : TLCSet(t, 0)

ToSet(s) == {s[i] : i \in 1..Len(s)}

TraceInit == /\ tid \in 1..Len(Traces) /\ l = 0
             /\ InitWith({Traces[tid].sc})

\* the logged projection of instr / store / "attribute methods are the originals"
\* Storage entries are keyed by id(object).  An entry left behind by round 1 whose object is dead can
\* be overwritten in round 2 by a new object that got the same id, so in round 2 a left-over entry may
\* be missing from the log; entries of the follow-up's own objects are compared exactly.
StateMatches(e) ==
  \A i \in 1..Len(S.user) :
     /\ instr'[S.user[i]] = e.si[i]
     /\ IF round' = 1 THEN store'[S.user[i]] = ToSet(e.ss[i])
        ELSE /\ ToSet(e.ss[i]) \subseteq store'[S.user[i]]
             /\ {o \in store'[S.user[i]] : FileOf(o) = S.follow} \subseteq ToSet(e.ss[i])
     /\ e.so[i] <=> (instr'[S.user[i]] = 0)

Matches(e) ==
  /\ ev'.ev = e.ev /\ ev'.o = e.o /\ ev'.k = e.k /\ ev'.s = e.s
  /\ (e.ev = "Follow" /\ Traces[tid].mode = "C14") \/ ev'.b = e.b
  /\ ev'.args = ToSet(e.args) /\ Cardinality(ev'.args) = Len(e.args)
  /\ (e.ev = "Post" /\ Traces[tid].mode = "C14") \/ ev'.refs = ToSet(e.refs)
  /\ e.hasst => StateMatches(e)

TraceNext ==
  /\ Next
  /\ tid' = tid
  /\ \/ ev' = NoEv /\ l' = l
     \/ /\ l < Len(Traces[tid].events)
        /\ Matches(Traces[tid].events[l + 1])
        /\ l' = l + 1

TraceSpec == TraceInit /\ [][TraceNext]_tvars

Progress == TLCSet(tid, IF l > TLCGet(tid) THEN l ELSE TLCGet(tid))

Report == \A t \in 1..Len(Traces) :
            PrintT("TRACE|" \o ToJson([tid |-> t, reached |-> TLCGet(t), len |-> Len(Traces[t].events)]))
=============================================================================
