------------------------------ MODULE EvalCli ------------------------------
(* Oracle / judge for recorded runs of the real `textx` command (C30).     *)
(* Input (IOEnv.VT_CASES): a JSON list of                                  *)
(*    [id, case, obs, devs]                                                *)
(* where `case` is a Cli case, `obs` what the harness observed when it ran *)
(* the real command on it and `devs` the deviation clauses that may be     *)
(* tried (the listed open findings only).  One RESULT line per entry:      *)
(*    infrag  the case lies in the judged fragment                         *)
(*    ok      the observation is what Cli prescribes (Dev = {})            *)
(*    okdev   the deviations d for which it is what Cli prescribes with {d} *)
(*    exp     Expected(case, {}) for the report                            *)
EXTENDS Cli, IOUtils, Json

Cases == JsonDeserialize(IOEnv.VT_CASES)

VARIABLE i
EInit == i = 0

Result(x) ==
  IF InFragment(x.case)
  THEN [id |-> x.id, infrag |-> TRUE,
        ok |-> AcceptsD(x.case, x.obs, {}),
        okdev |-> SelectSeq(x.devs, LAMBDA d : AcceptsD(x.case, x.obs, {d})),
        exp |-> ExpectedD(x.case, {})]
  ELSE [id |-> x.id, infrag |-> FALSE, ok |-> FALSE, okdev |-> <<>>, exp |-> <<>>]

ENext == /\ i < Len(Cases)
         /\ i' = i + 1
         /\ PrintT("RESULT|" \o ToJson(Result(Cases[i + 1])))
ESpec == EInit /\ [][ENext]_i
NoDev == {}
=============================================================================
