SPECIFICATION Spec
INVARIANT MemoTransparent
INVARIANT WsInsertion
INVARIANT CaseInsensitive
INVARIANT AutoKwd
INVARIANT NoValueLost
INVARIANT OnlyCommonObjects
INVARIANT SpansExact
INVARIANT Emit
CHECK_DEADLOCK FALSE
