----------------------------- MODULE FqnOracle -----------------------------
(* Oracle mode of Fqn.tla (C10): JSON cases in; per case the outcome of the   *)
(* load (targets of the references in textual order, 0 = "Unknown object",    *)
(* nothing after it) under the documented semantics and under each deviation   *)
(* set the case asks for (x.devs: the sets of *listed open* clauses), and      *)
(* whether the documented outcome satisfies C10.                               *)
EXTENDS Fqn, Json, IOUtils

ASSUME TLCSet(1, JsonDeserialize(IOEnv.VT_CASES))
Cases == TLCGet(1)

SetOf(s) == {s[j] : j \in 1..Len(s)}

Answer(x) ==
  LET c == [objs |-> x.objs, refs |-> x.refs] IN
  [id |-> x.id, doc |-> Expected(c, {}),
   dev |-> [j \in 1..Len(x.devs) |-> Expected(c, SetOf(x.devs[j]))],
   c10 |-> C10Holds(c, {})]

VARIABLE i
Init == i = 0
Next == /\ i < Len(Cases) /\ i' = i + 1
        /\ PrintT("RESULT|" \o ToJson(Answer(Cases[i + 1])))
Spec == Init /\ [][Next]_i
=============================================================================
