-------------------------- MODULE MC_LoaderProvider --------------------------
(* C32: the provider-selection function of LoaderProvider evaluated on every  *)
(* configuration (S->I enumeration), with the precedence theorem as ASSUME.   *)
(*                                                                            *)
(* Carrier: two rules RA, RB, each with a single reference attribute `one`    *)
(* and a list reference attribute `many`.  A configuration registers a set of *)
(* keys (each bound to a provider that records its own label) and gives some  *)
(* attributes an RREL expression in the grammar.  For every reference slot    *)
(* (rule, attribute) the module says which provider resolve_one_step uses.    *)
EXTENDS LoaderProvider, IOUtils, TLC, Json

Rules == {"RA", "RB"}
Attrs == {"one", "many"}
Slots == {<<c, a>> : c \in Rules, a \in Attrs}
SlotName(s) == s[1] \o "." \o s[2]
AllKeys == {c \o "." \o a : c \in Rules \cup {"*"}, a \in Attrs \cup {"*"}}

ASSUME Precedence(Rules, Attrs)
ASSUME \A e \in {"defs", "^pkgs*.defs"} : Registered([kind |-> "string", expr |-> e]) = GrammarRrel(e)
ASSUME Registered([kind |-> "callable", expr |-> "p"]) = [kind |-> "callable", expr |-> "p"]

\* the 128 configurations of the property: a focus slot, a subset of its four keys, grammar RREL on it or not
Focused == UNION {{[focus |-> SlotName(s), keys |-> ks, rrel |-> IF g THEN {SlotName(s)} ELSE {}] :
                      g \in BOOLEAN, ks \in SUBSET Range(KeyOrder(s[1], s[2]))} : s \in Slots}
\* thorough: every subset of all nine keys x every set of slots with a grammar RREL
Full == {[focus |-> "-", keys |-> ks, rrel |-> {SlotName(s) : s \in gs}] : ks \in SUBSET AllKeys, gs \in SUBSET Slots}

Configs == IF IOEnv.VT_C32 = "full" THEN Full ELSE Focused
MCDev   == IF IOEnv.VT_DEV = "" THEN {} ELSE {IOEnv.VT_DEV}

Expected(c) == [s \in {SlotName(x) : x \in Slots} |->
                  LET x == CHOOSE y \in Slots : SlotName(y) = s
                  IN Provider(c.keys, x[1], x[2], s \in c.rrel)]

\* registered RREL strings: what the table holds after register_scope_providers, per (expression)
\* (+m: expressions make the provider a model loader as well: the files named by importURI attributes
\*  are loaded before resolution starts -- equal providers, hence equal behaviour there too)
Exprs == {"defs", "pkgs.defs", "^defs", "^pkgs*.defs", "pkgs*.defs", "..defs", "^defs,pkgs.defs", "parent(Pkg).defs", "pkgs.pkgs.defs",
          "+m:defs", "+m:pkgs.defs", "+m:^pkgs*.defs"}
StringCase(e) == [expr |-> e, registered |-> Registered([kind |-> "string", expr |-> e]), grammar |-> GrammarRrel(e)]

VARIABLE c
PInit == c \in Configs
PNext == UNCHANGED c
PSpec == PInit /\ [][PNext]_c
Emit  == PrintT("CASE|" \o ToJson([focus |-> c.focus, keys |-> c.keys, rrel |-> c.rrel, expected |-> Expected(c)]))
ASSUME \A e \in Exprs : PrintT("STRING|" \o ToJson(StringCase(e)))
=============================================================================
