-------------------------- MODULE MC_LoaderProvider --------------------------
(* C32: the provider-selection function of LoaderProvider evaluated on every  *)
(* configuration (S->I enumeration), with the precedence theorem as ASSUME.   *)
(*                                                                            *)
(* Carrier: two rules RA, RB, each with a single reference attribute `one`    *)
(* and a list reference attribute `many`.  A configuration registers a set of *)
(* keys (each bound to a provider that records its own label) and gives some  *)
(* attributes an RREL expression in the grammar (possibly on only one of two  *)
(* assignments of the attribute).  Registrations come in a sequence on one    *)
(* metamodel.  For every reference slot (rule, attribute) the module says     *)
(* which provider resolve_one_step uses after each registration.              *)
EXTENDS LoaderProvider, IOUtils, TLC, Json

Rules == {"RA", "RB"}
Attrs == {"one", "many"}
Slots == {<<c, a>> : c \in Rules, a \in Attrs}
SlotName(s) == s[1] \o "." \o s[2]
AllKeys == {c \o "." \o a : c \in Rules \cup {"*"}, a \in Attrs \cup {"*"}}

ASSUME Precedence(Rules, Attrs)
ASSUME \A e \in {"defs", "^pkgs*.defs"} : Registered([kind |-> "string", expr |-> e]) = GrammarRrel(e)
ASSUME Registered([kind |-> "callable", expr |-> "p"]) = [kind |-> "callable", expr |-> "p"]

SlotNames == {SlotName(x) : x \in Slots}
SlotOf(n) == CHOOSE y \in Slots : SlotName(y) = n
\* how the focus attribute is assigned in its rule: once without / with an RREL, or twice (plain then RREL,
\* RREL then plain)
Patterns == {<<FALSE>>, <<TRUE>>, <<FALSE, TRUE>>, <<TRUE, FALSE>>}

\* A configuration: the assignments of every slot (occ), then a SEQUENCE of registrations on one metamodel:
\* `prev` (all other keys, or nothing), `keys` (the registration under test; the providers of `falsy` are
\* callables whose truth value is False), and finally {} (nothing registered any more).
\* Focused: focus slot x pattern x subset of its four keys x falsy subset x prev  (4 * 4 * 81 * 2 = 2592)
Focused == UNION {UNION {{[focus |-> SlotName(s), occ |-> [n \in SlotNames |-> IF n = SlotName(s) THEN p ELSE <<FALSE>>],
                           keys |-> ks, falsy |-> fs, prev |-> pv] :
                            p \in Patterns, fs \in SUBSET ks, pv \in {{}, AllKeys \ ks}}
                         : ks \in SUBSET Range(KeyOrder(s[1], s[2]))} : s \in Slots}
\* thorough: every subset of all nine keys x every set of slots with a grammar RREL (8192), all providers falsy
\* in every second one
Full == {[focus |-> "-", occ |-> [n \in SlotNames |-> <<SlotOf(n) \in gs>>], keys |-> ks,
          falsy |-> IF Cardinality(ks) % 2 = 0 THEN ks ELSE {}, prev |-> {}] : ks \in SUBSET AllKeys, gs \in SUBSET Slots}

Configs == IF IOEnv.VT_C32 = "full" THEN Full ELSE Focused
MCDev   == IF IOEnv.VT_DEV = "" THEN {} ELSE {IOEnv.VT_DEV}

ExpectedAt(c, table) == [n \in SlotNames |->
                           Provider(table, SlotOf(n)[1], SlotOf(n)[2], HasGrammarRrel(c.occ[n]))]
Regs(c) == <<c.prev, c.keys, {}>>
\* the provider of every slot after each registration of the sequence
Expected(c) == [i \in 1..3 |-> ExpectedAt(c, TableAfter(SubSeq(Regs(c), 1, i)))]

\* registered RREL strings: what the table holds after register_scope_providers, per (expression)
\* (+m: expressions make the provider a model loader as well: the files named by importURI attributes
\*  are loaded before resolution starts -- equal providers, hence equal behaviour there too)
Exprs == {"defs", "pkgs.defs", "^defs", "^pkgs*.defs", "pkgs*.defs", "..defs", "^defs,pkgs.defs", "parent(Pkg).defs", "pkgs.pkgs.defs",
          "+m:defs", "+m:pkgs.defs", "+m:^pkgs*.defs"}
StringCase(e) == [expr |-> e, registered |-> Registered([kind |-> "string", expr |-> e]), grammar |-> GrammarRrel(e)]

VARIABLE c
PInit == c \in Configs
PNext == UNCHANGED c
PSpec == PInit /\ [][PNext]_c
Emit  == PrintT("CASE|" \o ToJson([focus |-> c.focus, occ |-> c.occ, keys |-> c.keys, falsy |-> c.falsy,
                                        prev |-> c.prev, expected |-> Expected(c)]))
ASSUME \A e \in Exprs : PrintT("STRING|" \o ToJson(StringCase(e)))
=============================================================================
