----------------------------- MODULE BaseTypes -----------------------------
(***************************************************************************)
(* The textX base types (property C04): the regular expressions of         *)
(* textx/lang.py as Regex ASTs, NUMBER and BASETYPE as ordered choice, the *)
(* conversions of TextXMetaModel._default_obj_processors stated            *)
(* symbolically, and the three small parse shapes the checks use           *)
(* (`x=R`, `v*=R`, `a=R1 b=R2 ...`, each followed by end of input, with    *)
(* whitespace skipped before every match).                                 *)
(*                                                                         *)
(* A converted value is a sequence of code points:                         *)
(*   INT          canonical decimal text (sign only if negative, no        *)
(*                leading zeros) -- the integer itself may exceed 32 bits  *)
(*   BOOL         <<1>> or <<0>>                                           *)
(*   STRING       Unescape(q, inner): only the delimiter q is unescaped    *)
(*   FLOAT, STRICTFLOAT, ID   the matched text (for the two float types    *)
(*                the harness compares float(matched text) with the value) *)
(***************************************************************************)
EXTENDS Regex

CONSTANT Dev   \* deviation clauses switched on; {} = documented behaviour
               \*   "UnescapeBothQuotes"  STRING conversion unescapes \" and \' whatever the delimiter
               \*   "NumberIntFirst"      NUMBER tries INT before STRICTFLOAT
               \*   "BoolNoLower"         BOOL conversion compares with "true" without lower-casing

DQ == 34   SQ == 39   BSL == 92   DOT == 46   PLUS == 43   MINUS == 45   NL == 10   SP == 32

\* ---------------------------------------------------------------- regexes
D        == Chr(In(Digit))
SignOpt  == Opt(Chr(In({PLUS, MINUS})))
ExpRe    == CatAll(<<Chr(In({101, 69})), SignOpt, Plus(D)>>)            \* [eE][+-]?\d+
WordDot  == In(Word \cup {DOT})
NumEnd   == Cat(Behind(WordDot, TRUE), Look(Chr(WordDot), FALSE))       \* (?<=[\w\.])(?![\w\.])

\* [^\d\W]\w*\b
IdRe     == CatAll(<<Chr(In(Word \ Digit)), Star(Chr(In(Word))), WordB>>)
\* (True|true|False|false|0|1)\b
BoolRe   == Cat(AltAll(<<Lit(<<84,114,117,101>>), Lit(<<116,114,117,101>>),
                         Lit(<<70,97,108,115,101>>), Lit(<<102,97,108,115,101>>),
                         One(48), One(49)>>), WordB)
\* [-+]?[0-9]+
IntRe    == Cat(SignOpt, Plus(D))
\* [+-]?(\d+(\.\d*)?|\.\d+)([eE][+-]?\d+)?(?<=[\w\.])(?![\w\.])
FloatRe  == CatAll(<<SignOpt,
                     Alt(Cat(Plus(D), Opt(Cat(One(DOT), Star(D)))), Cat(One(DOT), Plus(D))),
                     Opt(ExpRe), NumEnd>>)
\* [+-]?(((\d+\.(\d*)?|\.\d+)([eE][+-]?\d+)?)|((\d+)([eE][+-]?\d+)))(?<=[\w\.])(?![\w\.])
StrictRe == CatAll(<<SignOpt,
                     Alt(Cat(Alt(CatAll(<<Plus(D), One(DOT), Opt(Star(D))>>), Cat(One(DOT), Plus(D))),
                             Opt(ExpRe)),
                         Cat(Plus(D), ExpRe)),
                     NumEnd>>)
\* ("(\\"|[^"])*")|('(\\'|[^'])*')
Quoted(q) == CatAll(<<One(q), Star(Alt(Cat(One(BSL), One(q)), Chr(NotIn({q})))), One(q)>>)
StringRe  == Alt(Quoted(DQ), Quoted(SQ))

Terminals == {"ID", "BOOL", "INT", "FLOAT", "STRICTFLOAT", "STRING"}
Re(t) == CASE t = "ID" -> IdRe [] t = "BOOL" -> BoolRe [] t = "INT" -> IntRe
           [] t = "FLOAT" -> FloatRe [] t = "STRICTFLOAT" -> StrictRe [] t = "STRING" -> StringRe

\* a rule is a terminal or an ordered choice of terminals (NUMBER, BASETYPE flattened)
NumberAlts == IF "NumberIntFirst" \in Dev THEN <<"INT", "STRICTFLOAT">> ELSE <<"STRICTFLOAT", "INT">>
Alts(rule) == CASE rule = "NUMBER"   -> NumberAlts
                [] rule = "BASETYPE" -> NumberAlts \o <<"FLOAT", "BOOL", "ID", "STRING">>
                [] OTHER             -> <<rule>>

\* ------------------------------------------------------------ conversions
RECURSIVE ReplaceEsc(_, _)
\* left to right, non-overlapping: every `\q` becomes `q`   (str.replace)
ReplaceEsc(q, w) ==
  IF w = <<>> THEN <<>>
  ELSE IF Len(w) >= 2 /\ w[1] = BSL /\ w[2] = q THEN <<q>> \o ReplaceEsc(q, SubSeq(w, 3, Len(w)))
  ELSE <<w[1]>> \o ReplaceEsc(q, Tail(w))

Unescape(q, inner) ==
  IF "UnescapeBothQuotes" \in Dev THEN ReplaceEsc(SQ, ReplaceEsc(DQ, inner))
  ELSE ReplaceEsc(q, inner)

RECURSIVE StripZeros(_)
StripZeros(ds) == IF Len(ds) > 1 /\ ds[1] = 48 THEN StripZeros(Tail(ds)) ELSE ds

\* int(text): sign and magnitude digits
IntCanon(w) ==
  LET signed == w[1] \in {PLUS, MINUS}
      ds     == StripZeros(IF signed THEN Tail(w) ELSE w)
  IN IF w[1] = MINUS /\ ds # <<48>> THEN <<MINUS>> \o ds ELSE ds

LowerOf(c) == IF c \in UpperC THEN c + 32 ELSE c
LowerSeq(w) == [i \in 1..Len(w) |-> LowerOf(w[i])]
TrueW == <<116, 114, 117, 101>>
\* x == "1" or x.lower() == "true"
BoolConv(w) == IF w = <<49>> \/ (IF "BoolNoLower" \in Dev THEN w ELSE LowerSeq(w)) = TrueW
               THEN <<1>> ELSE <<0>>

Convert(t, w) ==
  CASE t = "INT"    -> IntCanon(w)
    [] t = "BOOL"   -> BoolConv(w)
    [] t = "STRING" -> Unescape(w[1], SubSeq(w, 2, Len(w) - 1))
    [] OTHER        -> w

\* ---------------------------------------------------------------- matching
Fail == [ok |-> FALSE, rule |-> "-", beg |-> 0, end |-> 0, val |-> <<>>]

RECURSIVE FirstAlt(_, _, _)
FirstAlt(alts, s, i) ==
  IF alts = <<>> THEN Fail
  ELSE LET e == Match(Re(Head(alts)), s, i) IN
       IF e = NoMatch THEN FirstAlt(Tail(alts), s, i)
       ELSE [ok |-> TRUE, rule |-> Head(alts), beg |-> i, end |-> e,
             val |-> Convert(Head(alts), Slice(s, i, e))]

\* the rule applied at offset i (no whitespace skipping)
MatchRule(rule, s, i) == FirstAlt(Alts(rule), s, i)

RECURSIVE SkipWs(_, _)
SkipWs(s, i) == IF i < Len(s) /\ s[i + 1] \in Space THEN SkipWs(s, i + 1) ELSE i

\* `x=R` at the start of the text (whatever follows the match)
ParseOne(rule, s) == MatchRule(rule, s, SkipWs(s, 0))

\* `a=R1 b=R2 ...` then end of input:  [ok, ms]   ms = the matches
RECURSIVE SeqFrom(_, _, _, _)
SeqFrom(rules, s, i, acc) ==
  LET j == SkipWs(s, i) IN
  IF rules = <<>> THEN [ok |-> j = Len(s), ms |-> IF j = Len(s) THEN acc ELSE <<>>]
  ELSE LET m == MatchRule(Head(rules), s, j) IN
       IF m.ok THEN SeqFrom(Tail(rules), s, m.end, Append(acc, m))
       ELSE [ok |-> FALSE, ms |-> <<>>]
ParseSeq(rules, s) == SeqFrom(rules, s, 0, <<>>)

\* `v*=R` then end of input
RECURSIVE ManyFrom(_, _, _, _)
ManyFrom(rule, s, i, acc) ==
  LET j == SkipWs(s, i)
      m == MatchRule(rule, s, j)
  IN IF m.ok /\ m.end > j THEN ManyFrom(rule, s, m.end, Append(acc, m))
     ELSE [ok |-> j = Len(s), ms |-> IF j = Len(s) THEN acc ELSE <<>>]
ParseMany(rule, s) == ManyFrom(rule, s, 0, <<>>)

Vals(p) == [n \in 1..Len(p.ms) |-> p.ms[n].val]

\* ------------------------------------------------- writing values as text
RECURSIVE EscapeQ(_, _)
EscapeQ(q, w) == IF w = <<>> THEN <<>>
                 ELSE (IF w[1] = q THEN <<BSL, q>> ELSE <<w[1]>>) \o EscapeQ(q, Tail(w))
\* a string written between quote q with only that quote escaped
Enc(q, w) == <<q>> \o EscapeQ(q, w) \o <<q>>

RECURSIVE Join(_, _)
Join(ws, sep) == IF Len(ws) = 1 THEN ws[1] ELSE ws[1] \o sep \o Join(Tail(ws), sep)
\* several strings [q, s] written one after the other, separated by sep
EncAll(parts, sep) == Join([n \in 1..Len(parts) |-> Enc(parts[n].q, parts[n].s)], sep)

\* a match as a flat record (for printing)
Res(m) == [ok |-> m.ok, rule |-> m.rule, beg |-> m.beg, end |-> m.end, val |-> m.val]
=============================================================================
