INIT Init
NEXT Next
CONSTANTS
  Dev <- MCDev
INVARIANT StringRoundTrip
INVARIANT BoolSpellingsThm
INVARIANT IntLiterals
INVARIANT FloatLiterals
INVARIANT StrictNeverInt
INVARIANT LookbehindRedundant
CONSTRAINT Emit
CHECK_DEADLOCK FALSE
