SPECIFICATION Spec
CONSTANTS
  Seeds <- MCSeeds
  Dev <- EnvDev
  Emit = FALSE
INVARIANT GenInL
INVARIANT LastTokenNeeded
INVARIANT TxAgrees
INVARIANT NoLeak
CHECK_DEADLOCK FALSE
