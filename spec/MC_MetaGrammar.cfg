SPECIFICATION Spec
CONSTANTS
  Seeds <- MCSeeds
  Dev <- EnvDev
  Emit = TRUE
INVARIANT GenInL
INVARIANT LastTokenNeeded
INVARIANT TxAgrees
INVARIANT NoLeak
INVARIANT Collect
INVARIANT EmitFinal
POSTCONDITION CoverageComplete
CHECK_DEADLOCK FALSE
