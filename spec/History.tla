------------------------------ MODULE History ------------------------------
(***************************************************************************)
(* Property C16: loading is independent of the metamodel's history.        *)
(*                                                                         *)
(* A process holds a pool of live metamodels (slots).  One action per      *)
(* public call: NewMM (metamodel_from_str), DropMM, LoadStr                *)
(* (model_from_str), LoadFile (model_from_file), WriteFile (the content of *)
(* the one mutable model file of a grammar directory changes), WriteDep    *)
(* (the mutable imported file is broken / repaired).  The variables        *)
(* are everything that outlives a call and could carry information from    *)
(* one load to the next:                                                   *)
(*   gp     textx.lang.textX_parsers: grammar parser cached by debug flag, *)
(*          with the memoization flag of the metamodel that created it;    *)
(*   cache  packrat tables of the rule objects (the base-type rules are    *)
(*          shared by every metamodel): the (grammar, input) pairs whose   *)
(*          entries are still stored;                                      *)
(*   mms    per live metamodel: configuration, the blueprint parser's      *)
(*          per-parse state (`inst` = names in _instances, `dirty` = other  *)
(*          fields that are not pristine), the user-class instrumentation   *)
(*          counter, the global model repository;                          *)
(*   scratch content of the mutable model file of each grammar directory;  *)
(*   dep    content ("good" / "bad") of the mutable *library* file that     *)
(*          some inputs import;                                            *)
(*   n      number of calls so far (names the model a call returned);      *)
(*   op     the last call with its result  [kind, dig, ident].             *)
(*                                                                         *)
(* What a load yields is computed by Result from the configuration, the    *)
(* input and the *view* the load has of the shared variables.  `Fresh` is  *)
(* data: the outcome of every (configuration, input, mode) in a brand-new  *)
(* interpreter.  C16 is the invariant OutcomeIsFresh; it holds because     *)
(* every load works on a clone of the blueprint parser (pristine view),    *)
(* clears the packrat tables when the parse ends, and balances the class   *)
(* instrumentation (SharedQuiescent).  The one legitimate dependence on    *)
(* history is the global repository: a repeated LoadFile of a cached file  *)
(* returns the very model an earlier call returned (C17's CacheHit).       *)
(*                                                                         *)
(* Dev   = deviation clauses: what the real code does differently (only     *)
(*         clauses listed in findings.d/C16.json are ever tried).          *)
(* Break = seeded breakages of the mechanism.  They are never tried        *)
(*         against the code; they exist to show that the invariants are    *)
(*         not vacuous (each one makes TLC report a violation).            *)
(***************************************************************************)
EXTENDS Naturals, Sequences, FiniteSets, TLC, Json

CONSTANT Pool
\* The pool is one record (data; MC_History.tla reads it from a JSON file):
\*   flag        [cfg -> [grammar, memo, classes, procs, grepo, inst]]
\*   inputs      [grammar -> Seq of input names]   (each also names an immutable file)
\*   winputs     [grammar -> Seq of inputs WriteFile may put into the scratch file], winit [grammar -> its initial content]
\*   depgrammars Seq of grammars whose directory has a mutable library file,
\*   depname     [grammar -> name of that file as a repository entry]
\*   fresh       [cfg -> [input -> [str, file -> [good, bad -> [kind, dig, libs]]]]]  from new interpreters,
\*               per content of the mutable library file
\*   freshmm     [cfg -> dig]  digest of the metamodel built in a new interpreter
\*   alt         [cfg -> [input -> [kind, dig]]] what the same configuration without a global repository yields (file mode)
\*   nested      [grammar -> [input -> Seq of library files a scope provider loads as nested main models]]
\*   defs, unres [grammar -> [input -> Seq of names the input defines / references but cannot resolve]]
\*   nimp        [grammar -> [input -> number of imported models parsed before reference resolution]]
\*   slots       number of slots,  maxops  bound on the length of a history (model checking only)
\*   dev         Seq of deviation clauses switched on
\*   brk         Seq of seeded breakages switched on (sensitivity of the invariants only)

Range(q) == {q[j] : j \in 1..Len(q)}
Scratch == "scratch"
NoCfg == "-"

\* Pool is substituted by an operator that parses a JSON file; TLC evaluates such a substitution
\* again at every use, whereas a zero-arity definition is evaluated once.  Everything below goes
\* through TP.
TP == Pool
TFlag == TP.flag
TCfgs == DOMAIN TFlag
TGrammars == {TFlag[c].grammar : c \in TCfgs}
TInputs == [g \in TGrammars |-> Range(TP.inputs[g])]
TWInputs == [g \in TGrammars |-> Range(TP.winputs[g])]
TWInit == TP.winit
TDepG == Range(TP.depgrammars)
TDepName == TP.depname
TFresh == TP.fresh
TFreshMM == TP.freshmm
TAlt == TP.alt
TNested == [g \in TGrammars |-> [i \in TInputs[g] |-> Range(TP.nested[g][i])]]
TDefs == [g \in TGrammars |-> [i \in TInputs[g] |-> Range(TP.defs[g][i])]]
TUnres == [g \in TGrammars |-> [i \in TInputs[g] |-> Range(TP.unres[g][i])]]
TNImp == TP.nimp
TSlots == 1..TP.slots
MaxOps == TP.maxops
TDev == Range(TP.dev)
TBreak == Range(TP.brk)

Grammars == TGrammars
FileNames(g) == TInputs[g] \cup {Scratch}

VARIABLES gp, cache, mms, scratch, dep, n, op

shared == <<gp, cache, mms, scratch, dep, n>>
vars == <<gp, cache, mms, scratch, dep, n, op>>

FreeSlot == [cfg |-> NoCfg, inst |-> {}, dirty |-> {}, instr |-> 0, repo |-> {}]
NewSlot(c) == [cfg |-> c, inst |-> {}, dirty |-> {}, instr |-> 0, repo |-> {}]

Live(s) == mms[s].cfg # NoCfg
Res(k, d, i) == [kind |-> k, dig |-> d, ident |-> i]
Rec(nm, s, a, i, w, r) == op' = [name |-> nm, slot |-> s, arg |-> a, inp |-> i, w |-> w, res |-> r]

Init == /\ gp = [d \in {"false", "true"} |-> "none"]
        /\ cache = {}
        /\ mms = [s \in TSlots |-> FreeSlot]
        /\ scratch = [g \in Grammars |-> TWInit[g]]
        /\ dep = [g \in TDepG |-> "good"]
        /\ n = 0
        /\ op = [name |-> "init", slot |-> 0, arg |-> "-", inp |-> "-", w |-> "-", res |-> Res("none", "-", 0)]

----------------------------------------------------------------------------
\* metamodel_from_str(grammar, **options): the grammar is parsed by the cached
\* textX parser, which is created (with this metamodel's memoization flag) only
\* if there is none yet for the debug flag.
NewMM(s, c) ==
  /\ ~Live(s)
  /\ gp' = [gp EXCEPT !["false"] = IF @ = "none" THEN (IF TFlag[c].memo THEN "memo" ELSE "plain") ELSE @]
  /\ mms' = [mms EXCEPT ![s] = NewSlot(c)]
  /\ n' = n + 1
  /\ Rec("NewMM", s, c, "-", "-", Res("mm", TFreshMM[c], 0))
  /\ UNCHANGED <<cache, scratch, dep>>

\* the last reference to the metamodel is dropped
DropMM(s) ==
  /\ Live(s)
  /\ mms' = [mms EXCEPT ![s] = FreeSlot]
  /\ n' = n + 1
  /\ Rec("DropMM", s, "-", "-", "-", Res("none", "-", 0))
  /\ UNCHANGED <<gp, cache, scratch, dep>>

\* the mutable file of grammar directory g gets the text of input i
WriteFile(g, i) ==
  /\ i \in TWInputs[g] /\ scratch[g] # i
  /\ scratch' = [scratch EXCEPT ![g] = i]
  /\ n' = n + 1
  /\ Rec("WriteFile", 0, g, i, "-", Res("none", "-", 0))
  /\ UNCHANGED <<gp, cache, mms, dep>>

\* the mutable library file of grammar directory g is broken / repaired
WriteDep(g, w) ==
  /\ g \in TDepG /\ w \in {"good", "bad"} /\ dep[g] # w
  /\ dep' = [dep EXCEPT ![g] = w]
  /\ n' = n + 1
  /\ Rec("WriteDep", 0, g, w, "-", Res("none", "-", 0))
  /\ UNCHANGED <<gp, cache, mms, scratch>>

----------------------------------------------------------------------------
\* One load.  mode "str": f is the input itself; mode "file": f is a file name.
Content(g, mode, f) == IF mode = "file" /\ f = Scratch THEN scratch[g] ELSE f

RepoFiles(m) == {e.file : e \in m.repo}
RepoEntry(m, f) == CHOOSE e \in m.repo : e.file = f

\* what the parser that performs the load sees of the blueprint's _instances:
\* a clone starts with an empty index
ViewInst(m) == IF "NoClone" \in TBreak \/ "KeepInstances" \in TBreak THEN m.inst ELSE {}

\* packrat entries of other parses that a memoizing parser would find
ViewCache(g, i) == cache \ {<<g, i>>}

Hit(m, c, mode, f) == mode = "file" /\ TFlag[c].grepo /\ f \in RepoFiles(m)

\* The content of the mutable library file this load sees: the file itself, unless the
\* metamodel's global repository already holds a model of it (then that model is used,
\* whatever the file says now -- C17).
World(m, c, g) ==
  IF g \notin TDepG THEN "good"
  ELSE IF TFlag[c].grepo /\ TDepName[g] \in RepoFiles(m) THEN RepoEntry(m, TDepName[g]).w
  ELSE dep[g]

Result(m, c, g, i, mode, f) ==
  LET base == TFresh[c][i][mode][World(m, c, g)] IN
  IF Hit(m, c, mode, f)
    THEN Res("model", RepoEntry(m, f).dig, RepoEntry(m, f).k)        \* C17 CacheHit: the same model object as before
  ELSE IF TFlag[c].memo /\ ViewCache(g, i) # {}
    THEN Res("corrupt", "tainted", 0)                                 \* stale packrat entries answer for another input
  ELSE IF base.kind = "unknown" /\ TFlag[c].inst /\ TUnres[g][i] # {} /\ TUnres[g][i] \subseteq ViewInst(m)
    THEN Res("model", "tainted", 0)                                   \* resolved against objects of an earlier load
  ELSE IF /\ "NestedLoadFinalizesOuterUnlessCached" \in TDev
          /\ TFlag[c].grepo /\ mode = "file"
          /\ TNested[g][i] # {} /\ TNested[g][i] \subseteq RepoFiles(m)
    THEN Res(TAlt[c][i].kind, TAlt[c][i].dig, 0)                        \* nested main loads are cache hits: the outer load is left alone
  ELSE Res(base.kind, base.dig, 0)

\* how many instrumentation levels a load leaves behind on the user classes
Leak(c, g, i, mode, r) ==
  IF ~TFlag[c].classes THEN 0
  ELSE (IF "ImportedParsersNotRestoredOnFailure" \in TDev /\ r.kind = "unknown" /\ mode = "file"
          THEN TNImp[g][i] ELSE 0)
     + (IF "NoRestoreOnFailure" \in TBreak /\ r.kind = "unknown" THEN 1 ELSE 0)

\* The instrumentation counter is incremented after the main text has been parsed
\* and decremented (if positive) on the failure path; a load whose own text does
\* not parse therefore decrements without having incremented.  With a balanced
\* counter (always 0 between calls) this is invisible; it is what removes one
\* leaked level again under ImportedParsersNotRestoredOnFailure.
Unmatched(c, g, i, r) ==
  TFlag[c].classes /\ r.kind = "syntax" /\ TNImp[g][i] = 0 /\ TNested[g][i] = {}

Load(nm, s, mode, f) ==
  /\ Live(s)
  /\ LET m == mms[s]
         c == m.cfg
         g == TFlag[c].grammar
         i == Content(g, mode, f)
         r == Result(m, c, g, i, mode, f)
         hit == Hit(m, c, mode, f)
         parsed == r.kind # "syntax"          \* the object graph was built
         keep == "NoClone" \in TBreak \/ "KeepInstances" \in TBreak
         inst2 == IF keep /\ parsed /\ ~hit THEN m.inst \cup TDefs[g][i] ELSE m.inst
         dirty2 == m.dirty
                   \cup (IF inst2 # {} THEN {"_instances"} ELSE {})
                   \cup (IF ("NoClone" \in TBreak \/ "KeepCrossrefs" \in TBreak) /\ parsed /\ ~hit /\ TDefs[g][i] # {}
                           THEN {"_crossrefs"} ELSE {})
                   \cup (IF "NoClone" \in TBreak /\ ~hit THEN {"input"} ELSE {})
         w == World(m, c, g)
         libs == {[file |-> l, k |-> 0, dig |-> "-", inp |-> "-",
                   w |-> IF g \in TDepG /\ l = TDepName[g] THEN dep[g] ELSE "-"] :
                      l \in {x \in Range(TFresh[c][i][mode][w].libs) : x \notin RepoFiles(m)}}
         own == IF r.kind = "model" /\ mode = "file"
                  THEN {[file |-> f, k |-> n + 1, dig |-> r.dig, inp |-> i, w |-> w]} ELSE {}
         repo2 == IF TFlag[c].grepo /\ ~hit THEN m.repo \cup libs \cup own ELSE m.repo
     IN /\ f \in (IF mode = "file" THEN FileNames(g) ELSE TInputs[g])
        /\ mms' = [mms EXCEPT ![s] = [cfg |-> c, inst |-> inst2, dirty |-> dirty2,
                                      instr |-> IF hit THEN m.instr
                                                ELSE IF Unmatched(c, g, i, r) /\ m.instr > 0 THEN m.instr - 1
                                                ELSE m.instr + Leak(c, g, i, mode, r),
                                      repo |-> repo2]]
        /\ cache' = IF "NoCacheClear" \in TBreak /\ TFlag[c].memo /\ ~hit THEN cache \cup {<<g, i>>} ELSE cache
        /\ Rec(nm, s, f, i, w, r)
  /\ n' = n + 1
  /\ UNCHANGED <<gp, scratch, dep>>

LoadStr(s, i) == Load("LoadStr", s, "str", i)
LoadFile(s, f) == Load("LoadFile", s, "file", f)

AllInputs == UNION {TInputs[g] : g \in Grammars}

Next ==
  \/ \E s \in TSlots, c \in TCfgs : NewMM(s, c)
  \/ \E s \in TSlots : DropMM(s)
  \/ \E g \in Grammars, i \in AllInputs : WriteFile(g, i)
  \/ \E g \in TDepG, w \in {"good", "bad"} : WriteDep(g, w)
  \/ \E s \in TSlots, i \in AllInputs : LoadStr(s, i)
  \/ \E s \in TSlots, f \in AllInputs \cup {Scratch} : LoadFile(s, f)

Spec == Init /\ [][Next]_vars

Bound == n <= MaxOps

----------------------------------------------------------------------------
\* C16.  Every load yields what the same configuration yields in a fresh
\* process on the same input -- no shared variable influences the outcome --
\* except that with a global repository a repeated LoadFile returns the model
\* object an earlier call returned, which is itself equal to Fresh.
IsLoad == op.name \in {"LoadStr", "LoadFile"}
Mode == IF op.name = "LoadStr" THEN "str" ELSE "file"

OutcomeIsFresh ==
  IsLoad =>
    LET m == mms[op.slot]
        c == m.cfg
    IN IF op.res.ident = 0
       THEN /\ op.res.kind = TFresh[c][op.inp][Mode][op.w].kind
            /\ op.res.dig = TFresh[c][op.inp][Mode][op.w].dig
            \* the library content the load saw is the file's, or that of a cached model of it
            /\ LET g == TFlag[c].grammar IN
               g \in TDepG => \/ op.w = dep[g]
                              \/ (TFlag[c].grepo /\ \E e \in m.repo : e.file = TDepName[g] /\ e.w = op.w)
       ELSE /\ TFlag[c].grepo /\ Mode = "file"
            /\ \E e \in m.repo : /\ e.file = op.arg /\ e.k = op.res.ident /\ e.k < n
                                 /\ op.res.kind = "model"
                                 /\ op.res.kind = TFresh[c][e.inp]["file"][e.w].kind
                                 /\ op.res.dig = TFresh[c][e.inp]["file"][e.w].dig

\* a model identity is handed out again only by a global repository
IdentOnlyFromRepo == op.res.ident # 0 => (op.name = "LoadFile" /\ TFlag[mms[op.slot].cfg].grepo)

\* the inductive reason: between calls nothing of a load is left in the shared
\* parser state, the packrat tables or the class instrumentation
SharedQuiescent ==
  /\ cache = {}
  /\ \A s \in TSlots : Live(s) => mms[s].inst = {} /\ mms[s].dirty = {} /\ mms[s].instr = 0

\* repositories exist only with global_repository=True, hold one entry per file,
\* and entries name calls of the past
RepoSane ==
  \A s \in TSlots :
    /\ (~Live(s) \/ ~TFlag[mms[s].cfg].grepo) => mms[s].repo = {}
    /\ \A e1, e2 \in mms[s].repo : e1.file = e2.file => e1 = e2
    /\ \A e \in mms[s].repo : e.k <= n

\* the grammar parser is created once per debug flag and never replaced
GrammarParserSticky == [][gp["false"] # "none" => gp' = gp]_vars

\* a repository only grows while its metamodel lives, and a cached file is
\* never loaded again
RepoMonotone ==
  [][\A s \in TSlots : (Live(s) /\ mms'[s].cfg = mms[s].cfg /\ op'.name # "NewMM")
                        => mms[s].repo \subseteq mms'[s].repo]_vars

\* a call leaves every other metamodel alone
OthersUntouched == [][\A s \in TSlots : s # op'.slot => mms'[s] = mms[s]]_vars

----------------------------------------------------------------------------
\* for (S->I): one line per step of a simulated history, with the outcome the
\* specification prescribes
EmitStep == PrintT("STEP|" \o ToJson([lvl |-> TLCGet("level"), name |-> op'.name, slot |-> op'.slot,
                                      arg |-> op'.arg, inp |-> op'.inp, w |-> op'.w, res |-> op'.res]))
=============================================================================
