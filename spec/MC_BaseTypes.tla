---------------------------- MODULE MC_BaseTypes ----------------------------
(***************************************************************************)
(* (M) for C04: the design theorems of BaseTypes checked by TLC on bounded *)
(* universes; one state per case.  The same runs print every case with the *)
(* module's answer (`CASE|json`) so that the harness can push exactly the  *)
(* checked cases through textX (S->I).                                     *)
(*                                                                         *)
(* Environment: VT_KIND in {str, pair, bool, num}; VT_L1, VT_L2 length     *)
(* bounds; VT_SHARD / VT_NSHARDS split a universe over parallel TLC runs;  *)
(* VT_DEV a deviation clause name or "".                                   *)
(***************************************************************************)
EXTENDS BaseTypes, TLC, Json, IOUtils

Kind    == IOEnv.VT_KIND
L1      == atoi(IOEnv.VT_L1)
L2      == atoi(IOEnv.VT_L2)
ShardNo == atoi(IOEnv.VT_SHARD)
NShards == atoi(IOEnv.VT_NSHARDS)
MCDev   == IF IOEnv.VT_DEV = "" THEN {} ELSE {IOEnv.VT_DEV}

VARIABLE c
Next == FALSE /\ UNCHANGED c       \* one state per case, no transitions

\* ------------------------------------------------------------------ strings
Alpha == {97, SP, SQ, DQ, BSL, NL}                  \* a letter, space, ', ", \, newline
Strs(n) == UNION {[1..k -> Alpha] : k \in 0..n}
NoTrailingBsl(w) == w = <<>> \/ w[Len(w)] # BSL
Good(n) == {w \in Strs(n) : NoTrailingBsl(w)}
RECURSIVE SumW(_, _)
SumW(w, i) == IF i > Len(w) THEN 0 ELSE i * w[i] + SumW(w, i + 1)
Mine(w, q) == (SumW(w, 1) + q) % NShards = ShardNo
Quotes == {SQ, DQ}
Seps == {<<SP>>, <<>>}                              \* the next string on the same line

StrCases  == {[parts |-> <<[q |-> q, s |-> w]>>, sep |-> <<>>] :
                 q \in Quotes, w \in {x \in Good(L1) : Mine(x, 0)}}
PairCases == {[parts |-> <<[q |-> q1, s |-> w1], [q |-> q2, s |-> w2]>>, sep |-> sp] :
                 q1 \in Quotes, q2 \in Quotes, sp \in Seps,
                 w1 \in {x \in Good(L1) : Mine(x, 0)}, w2 \in Good(L2)}

StrText(cs) == EncAll(cs.parts, cs.sep)
StrExp(cs)  == ParseMany("STRING", StrText(cs))

\* Theorem (STRING round trip): every string written between either quote with
\* only that quote escaped is read back unchanged, also when another follows.
StringRoundTrip ==
  Kind \in {"str", "pair"} =>
    LET p == StrExp(c) IN
    /\ p.ok
    /\ Len(p.ms) = Len(c.parts)
    /\ \A n \in 1..Len(c.parts) : p.ms[n].val = c.parts[n].s
    /\ p.ms[1].beg = 0 /\ p.ms[1].end = Len(Enc(c.parts[1].q, c.parts[1].s))
    /\ p.ms[Len(p.ms)].end = Len(StrText(c))

EmitStr == LET p == StrExp(c) IN
           PrintT("CASE|" \o ToJson([text |-> StrText(c), ok |-> p.ok,
                                      ms |-> [n \in 1..Len(p.ms) |-> Res(p.ms[n])],
                                      want |-> [n \in 1..Len(c.parts) |-> c.parts[n].s]]))

\* --------------------------------------------------------------------- BOOL
Spellings == {<<84,114,117,101>>, <<116,114,117,101>>, <<70,97,108,115,101>>, <<102,97,108,115,101>>,
              <<48>>, <<49>>}
TrueSpellings == {<<84,114,117,101>>, <<116,114,117,101>>, <<49>>}
OtherWords == {<<84,82,85,69>>, <<70,65,76,83,69>>, <<116,82,117,101>>, <<50>>, <<121,101,115>>,
               <<116,114,117>>, <<102,97,108,115>>}
BoolFollows == {<<>>, <<SP>>, <<SP,120>>, <<120>>, <<95>>, <<DOT>>, <<49>>, <<44>>, <<NL>>, <<101>>}
BoolCases == {[w |-> w, fol |-> f] : w \in Spellings \cup OtherWords, f \in BoolFollows}
BoolText(cs) == cs.w \o cs.fol
BoolRules == <<"BOOL", "BASETYPE", "ID">>

\* Theorem: every BOOL spelling, delimited, is matched whole and converted to its truth value;
\* nothing else is a BOOL.
BoolSpellingsThm ==
  Kind = "bool" =>
    LET m == ParseOne("BOOL", BoolText(c))
        delim == c.fol = <<>> \/ c.fol[1] \notin Word
    IN /\ (c.w \in Spellings /\ delim) =>
             (m.ok /\ m.end = Len(c.w) /\ m.val = IF c.w \in TrueSpellings THEN <<1>> ELSE <<0>>)
       /\ (c.w \in OtherWords /\ delim => ~m.ok)
       /\ (m.ok => Slice(BoolText(c), 0, m.end) \in Spellings)

\* -------------------------------------------------------- numeric literals
Signs    == {<<>>, <<PLUS>>, <<MINUS>>}
IntParts == {<<>>, <<48>>, <<55>>, <<52,50>>, <<48,48,55>>}                        \* "", 0, 7, 42, 007
Fracs    == {<<>>, <<DOT>>, <<DOT,53>>, <<DOT,50,53>>, <<DOT,48>>}                  \* "", ., .5, .25, .0
ExpsOk   == {<<101,53>>, <<69,53>>, <<101,PLUS,53>>, <<101,MINUS,49,50>>}           \* e5 E5 e+5 e-12
ExpsBad  == {<<101>>, <<69,PLUS>>}                                                 \* e  E+
Exps     == {<<>>} \cup ExpsOk \cup ExpsBad
Follows  == {<<>>, <<SP>>, <<SP,120>>, <<120>>, <<DOT>>, <<DOT,53>>, <<95>>, <<44>>, <<MINUS>>,
             <<PLUS,49>>, <<101>>, <<NL,55>>}
NumCases == {[sign |-> sg, ip |-> ip, frac |-> fr, ex |-> ex, fol |-> fo] :
               sg \in Signs, ip \in IntParts, fr \in Fracs, ex \in Exps, fo \in Follows}
Literal(cs) == cs.sign \o cs.ip \o cs.frac \o cs.ex
NumText(cs) == Literal(cs) \o cs.fol
NumRules == <<"INT", "FLOAT", "STRICTFLOAT", "NUMBER", "BASETYPE">>

HasDigits(w) == \E n \in 1..Len(w) : w[n] \in Digit
IsIntLit(cs)   == cs.ip # <<>> /\ cs.frac = <<>> /\ cs.ex = <<>>
IsFloatLit(cs) == /\ (cs.ip # <<>> \/ HasDigits(cs.frac))
                  /\ cs.ex \in {<<>>} \cup ExpsOk
                  /\ (cs.frac # <<>> \/ cs.ex # <<>>)
Delimited(cs)  == cs.fol = <<>> \/ cs.fol[1] \notin (Word \cup {DOT})
Whole(m, cs)   == m.ok /\ m.beg = 0 /\ m.end = Len(Literal(cs))

\* Theorem: a decimal integer goes through INT and NUMBER (as INT) whole; FLOAT also takes it
IntLiterals ==
  Kind = "num" /\ IsIntLit(c) /\ Delimited(c) =>
    LET t == NumText(c) IN
    /\ Whole(ParseOne("INT", t), c)
    /\ Whole(ParseOne("NUMBER", t), c) /\ ParseOne("NUMBER", t).rule = "INT"
    /\ ParseOne("INT", t).val =
         (IF c.sign = <<MINUS>> /\ StripZeros(c.ip) # <<48>> THEN <<MINUS>> ELSE <<>>) \o StripZeros(c.ip)
    /\ ~ParseOne("STRICTFLOAT", t).ok
    /\ Whole(ParseOne("FLOAT", t), c)

\* Theorem: a float written with a '.' or an exponent goes through FLOAT, STRICTFLOAT and
\* NUMBER (as STRICTFLOAT) whole, and the converted text is the literal
FloatLiterals ==
  Kind = "num" /\ IsFloatLit(c) /\ Delimited(c) =>
    LET t == NumText(c) IN
    /\ \A r \in {"FLOAT", "STRICTFLOAT", "NUMBER", "BASETYPE"} :
          Whole(ParseOne(r, t), c) /\ ParseOne(r, t).val = Literal(c)
    /\ ParseOne("NUMBER", t).rule = "STRICTFLOAT"

\* Theorem: STRICTFLOAT never takes a plain integer
StrictNeverInt ==
  Kind = "num" =>
    LET m == ParseOne("STRICTFLOAT", NumText(c)) IN
    m.ok => \E n \in 1..Len(m.val) : m.val[n] \in {DOT, 101, 69}

\* Theorem: the look-behind of FLOAT / STRICTFLOAT never decides anything (the match
\* before it always ends in a digit or a '.'), so removing it changes no match
FloatNoLB == CatAll(<<SignOpt,
                      Alt(Cat(Plus(D), Opt(Cat(One(DOT), Star(D)))), Cat(One(DOT), Plus(D))),
                      Opt(ExpRe), Look(Chr(WordDot), FALSE)>>)
LookbehindRedundant ==
  Kind = "num" => Ends(FloatNoLB, NumText(c), 0) = Ends(FloatRe, NumText(c), 0)

EmitNum == LET t == NumText(c)
               q == ParseSeq(<<"NUMBER", "ID">>, t)
           IN PrintT("CASE|" \o ToJson(
                [text |-> t,
                 one  |-> [n \in 1..Len(NumRules) |-> Res(ParseOne(NumRules[n], t))],
                 seqok |-> q.ok,
                 seq  |-> [n \in 1..Len(q.ms) |-> Res(q.ms[n])]]))
EmitBool == PrintT("CASE|" \o ToJson(
             [text |-> BoolText(c),
              one  |-> [n \in 1..Len(BoolRules) |-> Res(ParseOne(BoolRules[n], BoolText(c)))]]))

Init == c \in CASE Kind = "str"  -> StrCases
                [] Kind = "pair" -> PairCases
                [] Kind = "bool" -> BoolCases
                [] Kind = "num"  -> {x \in NumCases : Mine(NumText(x), 0)}

Emit == CASE Kind \in {"str", "pair"} -> EmitStr
          [] Kind = "bool" -> EmitBool
          [] Kind = "num"  -> EmitNum
=============================================================================
