-------------------------- MODULE OracleRrelSyntax --------------------------
(***************************************************************************)
(* I->S for C12: RrelSyntax evaluated by TLC on cases from the harness.    *)
(*   [id, mode |-> "text", text]   a text (e.g. what the implementation    *)
(*                                 printed): what does reading it give?    *)
(*   [id, mode |-> "ast", ast]     a (seeded-random, larger) expression    *)
(*                                 tree: its text, its normal form, what   *)
(*                                 re-reading the printed normal form      *)
(*                                 gives under each deviation clause, and  *)
(*                                 the theorems instantiated on it         *)
(***************************************************************************)
EXTENDS RrelSyntax, TLC, Json, IOUtils

Cases == JsonDeserialize(IOEnv.VT_CASES)
ODev  == {}

AnswerText(cs) == [id |-> cs.id, read |-> ReadNorm(cs.text)]

AnswerAst(cs) ==
  LET t == cs.ast
      r == Parse(PrintD(t, {}))
      rs == Parse(PrintSpD(t, {}))
  IN [id     |-> cs.id,
      text   |-> PrintD(t, {}),
      textsp |-> PrintSpD(t, {}),
      norm   |-> Norm(t),
      exact  |-> r.ok /\ r.v = t /\ rs.ok /\ rs.v = t,
      thm    |-> RoundTripOf(t, {}),
      dev    |-> [ProxyFlagNotPrinted   |-> ReReadUnder(t, {"ProxyFlagNotPrinted"}),
                  FixedNameSingleQuoted |-> ReReadUnder(t, {"FixedNameSingleQuoted"}),
                  Both |-> ReReadUnder(t, {"ProxyFlagNotPrinted", "FixedNameSingleQuoted"})]]

VARIABLE i
Init == i = 0
Next == /\ i < Len(Cases) /\ i' = i + 1
        /\ PrintT("RESULT|" \o ToJson(IF Cases[i + 1].mode = "text" THEN AnswerText(Cases[i + 1])
                                       ELSE AnswerAst(Cases[i + 1])))
Spec == Init /\ [][Next]_i
=============================================================================
