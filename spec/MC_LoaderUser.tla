--------------------------- MODULE MC_LoaderUser ---------------------------
(* Bounded scenario universe for LoaderUser, enumerated by TLC:             *)
(* nesting {1 file, 2 files, 3 files chain, 3 files fan, provider loading a *)
(* string (error propagated / swallowed)} x user-class sets x global        *)
(* repository on/off x every failure point (step, file, object/reference).  *)
(* The .cfg selects MCSmall | MCFull and the deviation set (Dev = {...}).    *)
EXTENDS LoaderUser, IOUtils

O(c, p) == [cls |-> c, parent |-> p]
R(o, tf, to, post, inner, sw) == [owner |-> o, tf |-> tf, to |-> to, post |-> post, inner |-> inner, swallow |-> sw]
F(kind, objs, refs, imports) == [kind |-> kind, objs |-> objs, refs |-> refs, imports |-> imports, prim |-> FALSE]
\* a file whose model is a plain value (abstract root rule matching a base type)
PrimFile == [kind |-> "main", objs |-> <<>>, refs |-> <<>>, imports |-> <<>>, prim |-> TRUE]

\* file bodies
MainObjs  == <<O("Model", 0), O("Pkg", 1), O("DefA", 2), O("DefB", 2), O("Use", 1)>>
ImpObjs   == <<O("Model", 0), O("DefA", 1), O("Pkg", 1), O("DefA", 3)>>
LeafObjs  == <<O("Model", 0), O("DefA", 1)>>
InnerObjs == <<O("Model", 0), O("DefA", 1), O("Use", 1)>>
FollowObjs == <<O("Model", 0), O("Pkg", 1), O("DefA", 2), O("Use", 1)>>
FollowFile(n) == F("follow", FollowObjs, <<R(4, n, 3, 0, 0, FALSE)>>, <<>>)

Nest(n) ==
  CASE n = "one"   -> <<F("main", MainObjs, <<R(3, 1, 4, 1, 0, FALSE), R(5, 1, 3, 0, 0, FALSE)>>, <<>>), FollowFile(2)>>
    [] n = "prim"  -> <<PrimFile, FollowFile(2)>>
    \* main model loaded from a string, the other file found by the provider's file pattern;
    \* the follow-up file matches the pattern itself
    [] n = "gstr"  -> <<F("main", MainObjs, <<R(3, 1, 4, 0, 0, FALSE), R(5, 2, 2, 0, 0, FALSE)>>, <<2>>),
                        F("import", ImpObjs, <<R(2, 2, 4, 1, 0, FALSE)>>, <<>>),
                        F("follow", FollowObjs, <<R(4, 3, 3, 0, 0, FALSE)>>, <<3>>)>>
    [] n = "two"   -> <<F("main", MainObjs, <<R(3, 1, 4, 0, 0, FALSE), R(5, 2, 2, 0, 0, FALSE)>>, <<2>>),
                        F("import", ImpObjs, <<R(2, 2, 4, 1, 0, FALSE)>>, <<1>>), FollowFile(3)>>
    [] n = "chain" -> <<F("main", MainObjs, <<R(3, 1, 4, 0, 0, FALSE), R(5, 2, 2, 0, 0, FALSE)>>, <<2>>),
                        F("import", ImpObjs, <<R(2, 3, 2, 0, 0, FALSE)>>, <<3>>),
                        F("import", LeafObjs, <<>>, <<>>), FollowFile(4)>>
    [] n = "fan"   -> <<F("main", MainObjs, <<R(3, 3, 2, 0, 0, FALSE), R(5, 2, 2, 0, 0, FALSE)>>, <<2, 3>>),
                        F("import", ImpObjs, <<R(2, 2, 4, 0, 0, FALSE)>>, <<3>>),
                        F("import", LeafObjs, <<>>, <<>>), FollowFile(4)>>
    [] n = "inner" -> <<F("main", MainObjs, <<R(3, 1, 4, 0, 0, FALSE), R(5, 1, 3, 0, 2, FALSE)>>, <<>>),
                        F("inner", InnerObjs, <<R(3, 2, 2, 0, 0, FALSE)>>, <<>>), FollowFile(3)>>
    [] n = "swallow" -> <<F("main", MainObjs, <<R(3, 1, 4, 0, 0, FALSE), R(5, 1, 3, 0, 2, TRUE)>>, <<>>),
                        F("inner", InnerObjs, <<R(3, 2, 2, 0, 0, FALSE)>>, <<>>), FollowFile(3)>>

AllProcs == <<"Model", "Pkg", "DefA", "DefB", "Use">>
RECURSIVE Flat(_)
Flat(ss) == IF ss = <<>> THEN <<>> ELSE Head(ss) \o Flat(Tail(ss))

NestSmall == <<"one", "prim", "two", "gstr", "fan", "swallow">>
NestFull  == <<"one", "prim", "two", "gstr", "chain", "fan", "inner", "swallow">>
UserSmall == << <<>>, <<"Pkg", "DefA">>, <<"Model", "Pkg", "DefA">> >>
UserFull  == << <<>>, <<"DefA">>, <<"Pkg", "DefA">>, <<"Model", "Pkg", "DefA">> >>
RefSteps  == <<"matchproc", "provider", "unknown", "unresolvable">>

FaultsOfFile(files, user, f) ==
  LET nr == Len(files[f].refs)  no == Len(files[f].objs) IN
  << [step |-> "parse", f |-> f, k |-> 0], [step |-> "modelproc", f |-> f, k |-> 0] >>
  \o Flat([st \in 1..4 |-> [k \in 1..nr |-> [step |-> RefSteps[st], f |-> f, k |-> k]]])
  \o SelectSeq([k \in 1..no |-> [step |-> "init", f |-> f, k |-> k]],
               LAMBDA ft : \E i \in 1..Len(user) : user[i] = files[f].objs[ft.k].cls)
  \o [k \in 1..no |-> [step |-> "objproc", f |-> f, k |-> k]]
Faults(files, user) ==
  << [step |-> "none", f |-> 0, k |-> 0] >>
  \o Flat([f \in 1..Len(files) |-> IF files[f].kind = "follow" THEN <<>> ELSE FaultsOfFile(files, user, f)])

FtId(ft) == ft.step \o "." \o ToString(ft.f) \o "." \o ToString(ft.k)
UserId(u) == IF u = <<>> THEN "none" ELSE IF Len(u) = 1 THEN "A" ELSE IF Len(u) = 2 THEN "PA" ELSE "MPA"
Scen(n, u, ow, g, ft) ==
  [id |-> n \o "/" \o UserId(u) \o (IF ow /\ u # <<>> THEN "+own" ELSE "") \o (IF g THEN "/grepo/" ELSE "/-/") \o FtId(ft),
   user |-> u, own |-> IF ow THEN u ELSE <<>>, grepo |-> g, procs |-> AllProcs,
   prov |-> IF n = "gstr" THEN "glob" ELSE "uri",
   files |-> Nest(n), fault |-> ft, follow |-> Len(Nest(n))]
Bools == <<FALSE, TRUE>>
UniverseOf(nests, users, owns) ==
  Flat([a \in 1..Len(nests) |-> Flat([b \in 1..Len(users) |-> Flat([c \in 1..2 |-> Flat([d \in 1..Len(owns) |->
     IF owns[d] /\ users[b] = <<>> THEN <<>>
     ELSE LET fs == Faults(Nest(nests[a]), users[b]) IN
          [e \in 1..Len(fs) |-> Scen(nests[a], users[b], owns[d], Bools[c], fs[e])]])])])])
MCSmall == UniverseOf(NestSmall, UserSmall, <<FALSE>>)
MCFull  == UniverseOf(NestFull, UserFull, <<FALSE, TRUE>>)

AllDev == {"RestoreOnlyMainParser", "RestoreWithoutInstrument", "StoreKeptOnFailure",
           "NoCleanupOnModelProcessorFailure", "NoRestoreForPrimitiveModel"}
NoDev  == {}

SmallSpec == InitWith(Range(MCSmall)) /\ [][Next]_vars
FullSpec  == InitWith(Range(MCFull)) /\ [][Next]_vars

\* the enumerated scenarios, for replay against the implementation (printed from the initial states)
EmitScenario == (phase = "run" /\ round = 1 /\ Len(stack) = 1 /\ stack[1].pc = "parse" /\ exc = "")
                  => PrintT("SCEN|" \o ToJson(S))
=============================================================================
