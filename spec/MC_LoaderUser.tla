--------------------------- MODULE MC_LoaderUser ---------------------------
(* Bounded scenario universe for LoaderUser, enumerated by TLC:             *)
(* nesting {1 file, 2 files, 3 files chain, 3 files fan, provider loading a *)
(* string (error propagated / swallowed)} x user-class sets x global        *)
(* repository on/off x every failure point (step, file, object/reference).  *)
(* VT_UNIV = "small" | "full" selects the size, VT_DEV the deviation set.    *)
EXTENDS LoaderUser, IOUtils

O(c, p) == [cls |-> c, parent |-> p]
R(o, tf, to, post, inner, sw) == [owner |-> o, tf |-> tf, to |-> to, post |-> post, inner |-> inner, swallow |-> sw]
F(kind, objs, refs, imports) == [kind |-> kind, objs |-> objs, refs |-> refs, imports |-> imports]

\* file bodies
MainObjs  == <<O("Model", 0), O("Pkg", 1), O("DefA", 2), O("DefB", 2), O("Use", 1)>>
ImpObjs   == <<O("Model", 0), O("DefA", 1), O("Pkg", 1), O("DefA", 3)>>
LeafObjs  == <<O("Model", 0), O("DefA", 1)>>
InnerObjs == <<O("Model", 0), O("DefA", 1), O("Use", 1)>>
FollowObjs == <<O("Model", 0), O("Pkg", 1), O("DefA", 2), O("Use", 1)>>
FollowFile(n) == F("follow", FollowObjs, <<R(4, n, 3, 0, 0, FALSE)>>, <<>>)

Nest(n) ==
  CASE n = "one"   -> <<F("main", MainObjs, <<R(3, 1, 4, 1, 0, FALSE), R(5, 1, 3, 0, 0, FALSE)>>, <<>>), FollowFile(2)>>
    [] n = "two"   -> <<F("main", MainObjs, <<R(3, 1, 4, 0, 0, FALSE), R(5, 2, 2, 0, 0, FALSE)>>, <<2>>),
                        F("import", ImpObjs, <<R(2, 2, 4, 1, 0, FALSE)>>, <<1>>), FollowFile(3)>>
    [] n = "chain" -> <<F("main", MainObjs, <<R(3, 1, 4, 0, 0, FALSE), R(5, 2, 2, 0, 0, FALSE)>>, <<2>>),
                        F("import", ImpObjs, <<R(2, 3, 2, 0, 0, FALSE)>>, <<3>>),
                        F("import", LeafObjs, <<>>, <<>>), FollowFile(4)>>
    [] n = "fan"   -> <<F("main", MainObjs, <<R(3, 3, 2, 0, 0, FALSE), R(5, 2, 2, 0, 0, FALSE)>>, <<2, 3>>),
                        F("import", ImpObjs, <<R(2, 2, 4, 0, 0, FALSE)>>, <<3>>),
                        F("import", LeafObjs, <<>>, <<>>), FollowFile(4)>>
    [] n = "inner" -> <<F("main", MainObjs, <<R(3, 1, 4, 0, 0, FALSE), R(5, 1, 3, 0, 2, FALSE)>>, <<>>),
                        F("inner", InnerObjs, <<R(3, 2, 2, 0, 0, FALSE)>>, <<>>), FollowFile(3)>>
    [] n = "swallow" -> <<F("main", MainObjs, <<R(3, 1, 4, 0, 0, FALSE), R(5, 1, 3, 0, 2, TRUE)>>, <<>>),
                        F("inner", InnerObjs, <<R(3, 2, 2, 0, 0, FALSE)>>, <<>>), FollowFile(3)>>

AllProcs == <<"Model", "Pkg", "DefA", "DefB", "Use">>
Full == IOEnv.VT_UNIV = "full"
Nestings == IF Full THEN {"one", "two", "chain", "fan", "inner", "swallow"}
            ELSE {"one", "two", "fan", "swallow"}
UserSets == IF Full THEN {<<>>, <<"DefA">>, <<"Pkg", "DefA">>, <<"Model", "Pkg", "DefA">>}
            ELSE {<<>>, <<"Pkg", "DefA">>, <<"Model", "Pkg", "DefA">>}

Faults(files, user) ==
  LET live == {f \in 1..Len(files) : files[f].kind # "follow"} IN
  {[step |-> "none", f |-> 0, k |-> 0]}
  \cup {[step |-> st, f |-> f, k |-> 0] : st \in {"parse", "modelproc"}, f \in live}
  \cup UNION {{[step |-> st, f |-> f, k |-> k] : st \in {"matchproc", "provider", "unknown", "unresolvable"},
                                                 k \in 1..Len(files[f].refs)} : f \in live}
  \cup UNION {{[step |-> "init", f |-> f, k |-> k] :
                  k \in {j \in 1..Len(files[f].objs) : files[f].objs[j].cls \in Range(user)}} : f \in live}
  \cup UNION {{[step |-> "objproc", f |-> f, k |-> k] : k \in 1..Len(files[f].objs)} : f \in live}

Universe ==
  UNION {UNION {UNION {
     {[nest |-> n, user |-> u, own |-> IF ow THEN u ELSE <<>>, grepo |-> g, procs |-> AllProcs,
       files |-> Nest(n), fault |-> ft, follow |-> Len(Nest(n))]
        : ft \in Faults(Nest(n), u), ow \in (IF u = <<>> \/ ~Full THEN {FALSE} ELSE BOOLEAN)}
     : g \in BOOLEAN} : u \in UserSets} : n \in Nestings}

FtId(ft) == ft.step \o "." \o ToString(ft.f) \o "." \o ToString(ft.k)
UserId(u) == IF u = <<>> THEN "none" ELSE IF Len(u) = 1 THEN "A" ELSE IF Len(u) = 2 THEN "PA" ELSE "MPA"
WithId(s) == [id |-> s.nest \o "/" \o UserId(s.user) \o (IF s.own # <<>> THEN "+own" ELSE "")
                      \o (IF s.grepo THEN "/grepo/" ELSE "/-/") \o FtId(s.fault),
              user |-> s.user, own |-> s.own, grepo |-> s.grepo, procs |-> s.procs,
              files |-> s.files, fault |-> s.fault, follow |-> s.follow]

RECURSIVE ToSeq(_)
ToSeq(T) == IF T = {} THEN <<>> ELSE LET x == CHOOSE y \in T : TRUE IN <<WithId(x)>> \o ToSeq(T \ {x})
MCScenarios == ToSeq(Universe)

DevOf(s) == {n \in {"RestoreOnlyMainParser", "RestoreWithoutInstrument", "StoreKeptOnFailure",
                    "NoCleanupOnModelProcessorFailure"} :
               \E i \in 1..Len(s) : s[i] = n}
MCDev == DevOf(JsonDeserialize(IOEnv.VT_DEV))

\* scenarios given as JSON by the harness (oracle / replay of one case)
JScenarios == JsonDeserialize(IOEnv.VT_CASES)

EmitScenario == (phase = "run" /\ round = 1 /\ Len(stack) = 1 /\ stack[1].pc = "parse" /\ exc = "")
                  => PrintT("SCEN|" \o ToJson(S))
View == <<sc, round, phase, stack, exc, instr, held, store, inited, alloc, done, resolved,
          att, innerRun, procd, linked, repo, retained, outcome, ev>>
=============================================================================
