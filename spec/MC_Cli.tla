------------------------------ MODULE MC_Cli ------------------------------
(* Bounded universe of command lines for model checking Cli.tla (M) and    *)
(* for emitting every case to the harness (S->I).  The state space is the  *)
(* universe of cases, each with its one-step behaviour case -> outcome;    *)
(* the invariants are the clauses of property C30.                         *)
EXTENDS Cli, IOUtils, Json

\* ---- tokens (code points)
ExtA == <<46, 97, 46, 118, 116, 109>>         \* .a.vtm   pattern of language vta
ExtB == <<46, 98, 46, 118, 116, 109>>         \* .b.vtm   pattern of language vtb (same last extension)
tA   == <<45, 45, 97>>                        \* --a
tAB  == <<45, 45, 97, 45, 98>>                \* --a-b
tA_B == <<45, 45, 97, 95, 98>>                \* --a_b
v1   == <<49>>                                \* 1
vQ   == <<34, 120, 32, 121, 34>>              \* "x y"
vN   == <<45, 53>>                            \* -5     a value that starts with a single dash
vD   == <<45>>                                \* -      a lone dash
fG   == <<103>> \o ExtA                       \* g.a.vtm   vta, loads
fH   == <<104>> \o ExtA                       \* h.a.vtm   vta, loads
fS   == <<115>> \o ExtA                       \* s.a.vtm   vta, syntax error at 2:4
fE   == <<101>> \o ExtA                       \* e.a.vtm   vta, unknown reference at 3:7
fK   == <<107>> \o ExtB                       \* k.b.vtm   vtb, loads
nA   == <<97>>
nA_B == <<97, 95, 98>>
LangA == <<118, 116, 97>>                     \* vta
LangB == <<118, 116, 98>>                     \* vtb

MCFiles == << [name |-> fG, lang |-> 1, status |-> "ok",       line |-> 0, col |-> 0],
              [name |-> fH, lang |-> 1, status |-> "ok",       line |-> 0, col |-> 0],
              [name |-> fS, lang |-> 1, status |-> "syntax",   line |-> 2, col |-> 4],
              [name |-> fE, lang |-> 1, status |-> "semantic", line |-> 3, col |-> 7],
              [name |-> fK, lang |-> 2, status |-> "ok",       line |-> 0, col |-> 0] >>

D0 == [declared |-> FALSE, params |-> <<>>]
D1 == [declared |-> TRUE,  params |-> << [name |-> nA, mandatory |-> TRUE] >>]
D2 == [declared |-> TRUE,  params |-> << [name |-> nA_B, mandatory |-> FALSE] >>]
D3 == [declared |-> TRUE,  params |-> << [name |-> nA, mandatory |-> TRUE],
                                         [name |-> nA_B, mandatory |-> TRUE] >>]
AllDecls == {D0, D1, D2, D3}
\* the emitting configuration is run once per declaration (parallel TLC processes)
Decls == CASE IOEnv.VT_DECL = "0" -> {D0} [] IOEnv.VT_DECL = "1" -> {D1}
           [] IOEnv.VT_DECL = "2" -> {D2} [] IOEnv.VT_DECL = "3" -> {D3} [] OTHER -> AllDecls

Thorough == IOEnv.VT_SIZE = "thorough"
MaxArgs  == 3                              \* custom arguments in the structured family
MaxLen   == IF Thorough THEN 4 ELSE 3      \* tokens in the raw family
ModeLen  == IF Thorough THEN 3 ELSE 2      \* longest argv combined with every mode
MaxCheck == IF Thorough THEN 4 ELSE 3      \* files given to `textx check`

\* ---- family 1: model files first, then <= MaxArgs custom arguments, each
\*      bare, valued, with a quoted value or with a value starting with a dash, over the names
\*      a, a-b, a_b, in every order
\*      (quick: MaxArgs arguments only after the single valid model file)
Items    == UNION {{<<n>>, <<n, v1>>, <<n, vQ>>, <<n, vN>>} : n \in {tA, tAB, tA_B}}
Prefixes == {<<>>, <<fG>>, <<fS>>, <<fG, fH>>, <<fG, fE>>}
RECURSIVE Flat(_)
Flat(ss) == IF ss = <<>> THEN <<>> ELSE Head(ss) \o Flat(Tail(ss))
ItemSeqs(lo, hi) == UNION {[1..k -> Items] : k \in lo..hi}
Family1  == IF Thorough
            THEN {p \o Flat(s) : p \in Prefixes, s \in ItemSeqs(0, MaxArgs)}
            ELSE {p \o Flat(s) : p \in Prefixes, s \in ItemSeqs(0, MaxArgs - 1)}
                 \cup {<<fG>> \o Flat(s) : s \in ItemSeqs(MaxArgs, MaxArgs)}

\* ---- family 2: every token sequence up to MaxLen (all orders, files anywhere)
Tokens  == {tA, tAB, tA_B, v1, vQ, vN, vD, fG, fS} \cup (IF Thorough THEN {TokOverwrite} ELSE {})
Family2 == UNION {[1..k -> Tokens] : k \in 1..MaxLen}

\* ---- family 3: model files of two languages (one target, two generators) and a few arguments
FileSeqs3 == UNION {[1..k -> {fG, fK, fS}] : k \in 1..(IF Thorough THEN 3 ELSE 2)}
Tails3    == {<<>>, <<tA>>, <<tA, v1>>, <<tAB>>, <<tA, tAB>>}
Family3   == {f \o t : f \in FileSeqs3, t \in Tails3}
DeclsB    == {D0, D1}

Modes == {"language", "grammar", "ext"}
MCNames == {MCFiles[i].name : i \in 1..Len(MCFiles)}
\* two registered languages whose patterns share the last extension; a_b is a model parameter of vta
Langs(dA, dB) == << [name |-> LangA, suffix |-> ExtA, mparams |-> <<nA_B>>, decl |-> dA],
                    [name |-> LangB, suffix |-> ExtB, mparams |-> <<>>,     decl |-> dB] >>
ASSUME FilesInFragment(MCFiles, 2) /\ \A d \in AllDecls : DeclInFragment(d)
ASSUME LangsInFragment(Langs(D0, D1), 1)

\* the argvs of the judged fragment: with an explicit language, and (shorter ones) with every mode
ArgvsLang == {a \in Family1 \cup Family2 : ArgvInFragment("generate", "language", a, MCNames)}
ArgvsAny  == {a \in ArgvsLang : Len(a) <= ModeLen /\ ArgvInFragment("generate", "ext", a, MCNames)}

Case(cmd, m, sel, a, dA, dB, dAny) ==
  [cmd |-> cmd, mode |-> m, sel |-> sel, argv |-> a, langs |-> Langs(dA, dB), anydecl |-> dAny, files |-> MCFiles]

\* families 1 and 2: language vta (the generator of "any" declares the same as vta's)
GenCases == {Case("generate", "language", 1, a, d, D1, d) : a \in ArgvsLang, d \in Decls}
            \cup {Case("generate", m, 1, a, d, D1, d) : m \in {"grammar", "ext"}, a \in ArgvsAny, d \in Decls}
\* family 3: both languages; deduced per file, or either language named
MixCases == {Case("generate", "ext", 1, a, d, dB, D0) : a \in Family3, d \in Decls, dB \in DeclsB}
            \cup {Case("generate", "language", k, a, d, dB, D0) : a \in Family3, d \in Decls, dB \in DeclsB, k \in 1..2}
ChkCases == {Case("check", m, k, a, D0, D0, D0) :
                m \in Modes, k \in 1..2, a \in UNION {[1..n -> {fG, fH, fS, fE, fK}] : n \in 1..MaxCheck}}

Universe == GenCases \cup MixCases
            \cup (IF D0 \in Decls THEN {u \in ChkCases : u.mode # "ext" \/ u.sel = 1} ELSE {})

\* One behaviour per case:  (case, not run) --Run--> (case, outcome).  The initial
\* states are the universe; the outcome is computed in the step (by all workers).
VARIABLES c, done, out
vars == <<c, done, out>>
Blank == [exit |-> 0, calls |-> <<>>, allowed |-> {}, why |-> {}, locs |-> {}]
Init == c \in Universe /\ done = FALSE /\ out = Blank
Run  == ~done /\ done' = TRUE /\ out' = Expected(c) /\ c' = c
Next == Run
Spec == Init /\ [][Next]_vars

\* one invariant per clause of the property
InvExitStatus       == done => ExitStatus(c, out)
InvNamesNormalised  == done => NamesNormalised(c, out)
InvFlagsAndValues   == done => FlagsAndValues(c, out)
InvDeclaredEnforced == done => DeclaredEnforced(c, out)
InvGenerateOutcome  == done => GenerateOutcome(c, out)
InvCheckOutcome     == done => CheckOutcome(c, out)
InvModelParams      == done => ModelParamsPassed(c, out)
NoDev   == {}
DevBare == {"BareFlagKeepsDashes"}

\* emission of the universe to the harness: initial states only
EmitSpec == Init /\ [][UNCHANGED vars]_vars
Emit == PrintT("CASE|" \o ToJson(c))
=============================================================================
