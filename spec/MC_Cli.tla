------------------------------ MODULE MC_Cli ------------------------------
(* Bounded universe of command lines for model checking Cli.tla (M) and    *)
(* for emitting every case to the harness (S->I).  The state space is the  *)
(* universe of cases, each with its one-step behaviour case -> outcome;    *)
(* the invariants are the clauses of property C30.                         *)
EXTENDS Cli, IOUtils, Json

\* ---- tokens (code points)
Ext  == <<46, 118, 116, 109>>                 \* .vtm
tA   == <<45, 45, 97>>                        \* --a
tAB  == <<45, 45, 97, 45, 98>>                \* --a-b
tA_B == <<45, 45, 97, 95, 98>>                \* --a_b
v1   == <<49>>                                \* 1
vQ   == <<34, 120, 32, 121, 34>>              \* "x y"
vN   == <<45, 53>>                            \* -5     a value that starts with a single dash
vD   == <<45>>                                \* -      a lone dash
fG   == <<103>> \o Ext                        \* g.vtm   loads
fH   == <<104>> \o Ext                        \* h.vtm   loads
fS   == <<115>> \o Ext                        \* s.vtm   syntax error at 2:4
fE   == <<101>> \o Ext                        \* e.vtm   unknown reference at 3:7
nA   == <<97>>
nA_B == <<97, 95, 98>>

MCFiles == << [name |-> fG, status |-> "ok",       line |-> 0, col |-> 0],
              [name |-> fH, status |-> "ok",       line |-> 0, col |-> 0],
              [name |-> fS, status |-> "syntax",   line |-> 2, col |-> 4],
              [name |-> fE, status |-> "semantic", line |-> 3, col |-> 7] >>

D0 == [declared |-> FALSE, params |-> <<>>]
D1 == [declared |-> TRUE,  params |-> << [name |-> nA, mandatory |-> TRUE] >>]
D2 == [declared |-> TRUE,  params |-> << [name |-> nA_B, mandatory |-> FALSE] >>]
D3 == [declared |-> TRUE,  params |-> << [name |-> nA, mandatory |-> TRUE],
                                         [name |-> nA_B, mandatory |-> TRUE] >>]
AllDecls == {D0, D1, D2, D3}
\* the emitting configuration is run once per declaration (parallel TLC processes)
Decls == CASE IOEnv.VT_DECL = "0" -> {D0} [] IOEnv.VT_DECL = "1" -> {D1}
           [] IOEnv.VT_DECL = "2" -> {D2} [] IOEnv.VT_DECL = "3" -> {D3} [] OTHER -> AllDecls

Thorough == IOEnv.VT_SIZE = "thorough"
MaxArgs  == 3                              \* custom arguments in the structured family
MaxLen   == IF Thorough THEN 4 ELSE 3      \* tokens in the raw family
ModeLen  == IF Thorough THEN 3 ELSE 2      \* longest argv combined with every mode
MaxCheck == IF Thorough THEN 4 ELSE 3      \* files given to `textx check`

\* ---- family 1: model files first, then <= MaxArgs custom arguments, each
\*      bare, valued, with a quoted value or with a value starting with a dash, over the names
\*      a, a-b, a_b, in every order
\*      (quick: MaxArgs arguments only after the single valid model file)
Items    == UNION {{<<n>>, <<n, v1>>, <<n, vQ>>, <<n, vN>>} : n \in {tA, tAB, tA_B}}
Prefixes == {<<>>, <<fG>>, <<fS>>, <<fG, fH>>, <<fG, fE>>}
RECURSIVE Flat(_)
Flat(ss) == IF ss = <<>> THEN <<>> ELSE Head(ss) \o Flat(Tail(ss))
ItemSeqs(lo, hi) == UNION {[1..k -> Items] : k \in lo..hi}
Family1  == IF Thorough
            THEN {p \o Flat(s) : p \in Prefixes, s \in ItemSeqs(0, MaxArgs)}
            ELSE {p \o Flat(s) : p \in Prefixes, s \in ItemSeqs(0, MaxArgs - 1)}
                 \cup {<<fG>> \o Flat(s) : s \in ItemSeqs(MaxArgs, MaxArgs)}

\* ---- family 2: every token sequence up to MaxLen (all orders, files anywhere)
Tokens  == {tA, tAB, tA_B, v1, vQ, vN, vD, fG, fS} \cup (IF Thorough THEN {TokOverwrite} ELSE {})
Family2 == UNION {[1..k -> Tokens] : k \in 1..MaxLen}

Modes == {"language", "grammar", "ext"}
MCNames == {MCFiles[i].name : i \in 1..Len(MCFiles)}
ASSUME FilesInFragment(MCFiles) /\ \A d \in AllDecls : DeclInFragment(d)

\* the argvs of the judged fragment: with an explicit language, and (shorter ones) with every mode
ArgvsLang == {a \in Family1 \cup Family2 : ArgvInFragment("generate", "language", a, MCNames)}
ArgvsAny  == {a \in ArgvsLang : Len(a) <= ModeLen /\ ArgvInFragment("generate", "ext", a, MCNames)}

GenCases == {[cmd |-> "generate", mode |-> "language", argv |-> a, decl |-> d, files |-> MCFiles] :
                a \in ArgvsLang, d \in Decls}
            \cup {[cmd |-> "generate", mode |-> m, argv |-> a, decl |-> d, files |-> MCFiles] :
                m \in {"grammar", "ext"}, a \in ArgvsAny, d \in Decls}
ChkCases == {[cmd |-> "check", mode |-> m, argv |-> a, decl |-> D0, files |-> MCFiles] :
                m \in Modes, a \in UNION {[1..k -> {fG, fH, fS, fE}] : k \in 1..MaxCheck}}

Universe == GenCases \cup (IF D0 \in Decls THEN ChkCases ELSE {})

\* One behaviour per case:  (case, not run) --Run--> (case, outcome).  The initial
\* states are the universe; the outcome is computed in the step (by all workers).
VARIABLES c, done, out
vars == <<c, done, out>>
Blank == [exit |-> 0, calls |-> <<>>, allowed |-> {}, why |-> {}, locs |-> {}]
Init == c \in Universe /\ done = FALSE /\ out = Blank
Run  == ~done /\ done' = TRUE /\ out' = Expected(c) /\ c' = c
Next == Run
Spec == Init /\ [][Next]_vars

\* one invariant per clause of the property
InvExitStatus       == done => ExitStatus(c, out)
InvNamesNormalised  == done => NamesNormalised(c, out)
InvFlagsAndValues   == done => FlagsAndValues(c, out)
InvDeclaredEnforced == done => DeclaredEnforced(c, out)
InvGenerateOutcome  == done => GenerateOutcome(c, out)
InvCheckOutcome     == done => CheckOutcome(c, out)
NoDev   == {}
DevBare == {"BareFlagKeepsDashes"}

\* emission of the universe to the harness: initial states only
EmitSpec == Init /\ [][UNCHANGED vars]_vars
Emit == PrintT("CASE|" \o ToJson(c))
=============================================================================
