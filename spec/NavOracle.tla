------------------------------ MODULE NavOracle ------------------------------
(***************************************************************************)
(* Oracle mode for Nav.tla: TLC evaluates the module on cases written by    *)
(* the harness (VT_CASES) over the meta-model VT_MM and prints the answers  *)
(* the real code has to give.                                               *)
(*   kind "nav"   (C05): [id, g, rootnone, queries |-> Seq of [r, S, cf, F, typ]] *)
(*   kind "plain" (C07): [id, g, B |-> Seq of [name, cls]]                  *)
(***************************************************************************)
EXTENDS Nav, IOUtils, Json

\* (a cfg substitution `C <- D` is re-evaluated at every use of C; D == D0 is cached)
OMM0  == JsonDeserialize(IOEnv.VT_MM)
ODev0 == IF IOEnv.VT_DEV = "" THEN {} ELSE {IOEnv.VT_DEV}
OMM   == OMM0
ODev  == ODev0
Cases == JsonDeserialize(IOEnv.VT_CASES)

VARIABLE i

\* the container of o, read off the containment attributes (0 = none)
ContainerOf(g, o) ==
  LET P == {p \in Objs(g) : o \in Range(KidsOf(g, p))}
  IN IF P = {} THEN 0 ELSE CHOOSE p \in P : TRUE

NavAnswer(c) ==
  LET g == c.g IN
  IF ~WellFormed(g) THEN [id |-> c.id, wf |-> FALSE]
  ELSE
  [id |-> c.id, wf |-> TRUE,
   parent |-> [o \in Objs(g) |-> ContainerOf(g, o)],
   model  |-> [o \in Objs(g) |-> ModelOf(g, o, c.rootnone)],
   pot    |-> [o \in Objs(g) |-> [k \in 1..Len(MM.classes) |-> ParentOfType(g, MM.classes[k].name, o)]],
   ch     |-> [q \in 1..Len(c.queries) |->
                 LET Q == c.queries[q] IN
                 IF Q.typ = "" THEN Children(g, Range(Q.S), Q.r, Q.cf, Range(Q.F))
                 ELSE ChildrenOfType(g, Q.typ, Q.r, Q.cf, Range(Q.F))]]

SetSeq(S) == LET RECURSIVE f(_)
                 f(T) == IF T = {} THEN << >> ELSE LET x == CHOOSE x \in T : TRUE IN <<x>> \o f(T \ {x})
             IN f(S)

PlainAnswer(c) ==
  LET g == c.g IN
  IF ~WellFormed(g) THEN [id |-> c.id, wf |-> FALSE]
  ELSE LET errs == LoadErrors(g, c.B) IN
  [id |-> c.id, wf |-> TRUE, ok |-> errs = {},
   errs |-> SetSeq(errs),
   res  |-> IF errs = {} THEN Resolved(g, c.B) ELSE << >>]

Answer(c) == IF c.kind = "nav" THEN NavAnswer(c) ELSE PlainAnswer(c)

Init == i = 0
Next == /\ i < Len(Cases) /\ i' = i + 1
        /\ PrintT("RESULT|" \o ToJson(Answer(Cases[i + 1])))
Spec == Init /\ [][Next]_i
=============================================================================
