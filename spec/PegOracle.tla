----------------------------- MODULE PegOracle -----------------------------
(* Oracle mode of Peg.tla: Expected(case, D) for every case of a JSON file  *)
(* and every deviation set listed with the case.                            *)
EXTENDS Peg, Json, IOUtils
Cases == JsonDeserialize(IOEnv.VT_CASES)
\* case = [id, g, cfg, s, devs |-> Seq(Seq(STRING))]
Eval(c) == [id |-> c.id, wf |-> WellFormed(c.g),
            conf |-> IF WellFormed(c.g) THEN ConfPairs(c.g) ELSE {},
            kinds |-> [j \in 1..Len(c.g.rules) |-> <<c.g.rules[j].name, Kind(c.g, c.g.rules[j].name)>>],
            out |-> [j \in 1..Len(c.devs) |->
                       Outcome([g |-> c.g, cfg |-> c.cfg, D |-> SeqSet(c.devs[j]), s |-> c.s])]]
VARIABLE i
Init == i = 0
Next == /\ i < Len(Cases) /\ i' = i + 1
        /\ PrintT("RESULT|" \o ToJson(Eval(Cases[i+1])))
Spec == Init /\ [][Next]_i
=============================================================================
