SPECIFICATION Spec
CONSTANTS
  Seeds <- MCSeeds
  Dev <- NoDev
  Emit = FALSE
INVARIANT DevDirection
CHECK_DEADLOCK FALSE
