------------------------------ MODULE LoaderUser ------------------------------
(***************************************************************************)
(* Model loading with user classes (properties C14, C15).                  *)
(*                                                                         *)
(* One behaviour = one scenario: a (possibly nested) load of 1-3 files     *)
(* through imports, optionally with a scope provider that itself loads a   *)
(* string with the same metamodel, with at most one injected failure;      *)
(* then (round 2) a valid follow-up load with the same metamodel.          *)
(*                                                                         *)
(* Objects and references are numbered  file*10 + index  (index in the     *)
(* file's preorder object list / textual reference list).                  *)
(*                                                                         *)
(* State that outlives a load: `instr` (user class -> instrumentation      *)
(* nesting count), `store` (user class -> objects with per-object          *)
(* storage), `repo` (files cached in the metamodel's global repository).   *)
(* `retained` = objects reachable from that state after a failed load.     *)
(*                                                                         *)
(* Dev = {} is the documented behaviour.  The named clauses describe what  *)
(* textx/model.py really does where it differs (reproduced first):         *)
(*   RestoreOnlyMainParser   on failure only the parsers whose             *)
(*        get_model_from_str is still on the call stack restore; parsers   *)
(*        of already returned nested loads keep their increment            *)
(*   RestoreWithoutInstrument  that handler decrements the count even if   *)
(*        its parser holds no increment (syntax error before instrumenting,*)
(*        or already restored in _end_model_construction)                  *)
(*   StoreKeptOnFailure      per-object storage is never dropped on failure*)
(*   NoCleanupOnModelProcessorFailure  a failing model processor of the    *)
(*        main model leaves the models in the global repository            *)
(*   NoRestoreForPrimitiveModel  a load whose model is a plain value (the  *)
(*        root rule is abstract and matched a base type: files[f].prim)    *)
(*        never ends a model construction, so its parser never restores    *)
(***************************************************************************)
EXTENDS Naturals, Sequences, FiniteSets, TLC, Json

CONSTANTS Dev          \* deviation clauses switched on

VARIABLES sc,        \* the scenario of this behaviour (a record, see vt/drive/userclasses.py; never changes)
          round,     \* 1 = the load under test, 2 = the follow-up load
          phase,     \* "run" | "post" | "between" | "cmp" | "end"
          stack,     \* load frames, last = innermost
          exc,       \* "" or the kind of the exception being propagated
          instr, held, store,
          inited, alloc, done, resolved, att, innerRun, procd, linked,
          repo, retained, outcome,
          snap,      \* what was observable when round 1 ended (history, for the summary)
          ev         \* the observable event of the last step (NoEv for silent steps)

cvars == <<instr, held, store>>
ovars == <<inited, alloc, done, resolved, att, innerRun, procd, linked>>
rvars == <<repo, retained, outcome, snap>>
vars  == <<sc, round, phase, stack, exc, instr, held, store, inited, alloc, done, resolved,
           att, innerRun, procd, linked, repo, retained, outcome, snap, ev>>

----------------------------------------------------------------------------
\* the scenario
S        == sc
Range(s) == {s[i] : i \in 1..Len(s)}
NF       == Len(S.files)
File(f)  == S.files[f]
NObj(f)  == Len(File(f).objs)
NRef(f)  == Len(File(f).refs)
FileOf(x) == x \div 10
IdxOf(x)  == x % 10
Obj(o)   == File(FileOf(o)).objs[IdxOf(o)]
Cls(o)   == Obj(o).cls
Par(o)   == IF Obj(o).parent = 0 THEN 0 ELSE FileOf(o) * 10 + Obj(o).parent
ObjsOf(f) == {f * 10 + k : k \in 1..NObj(f)}
RefsOf(f) == {f * 10 + k : k \in 1..NRef(f)}
AllObjs  == UNION {ObjsOf(f) : f \in 1..NF}
AllRefs  == UNION {RefsOf(f) : f \in 1..NF}
Kids(o)  == {x \in ObjsOf(FileOf(o)) : Par(x) = o}
RefRec(r) == File(FileOf(r)).refs[IdxOf(r)]
Owner(r) == FileOf(r) * 10 + RefRec(r).owner
Target(r) == RefRec(r).tf * 10 + RefRec(r).to
User     == Range(S.user)
Own      == Range(S.own)          \* user classes that define their own attribute-access methods
Procs    == Range(S.procs)
IsUser(o) == Cls(o) \in User
UserObjs(f) == {o \in ObjsOf(f) : IsUser(o)}
Ft       == S.fault
FaultAt(step, x) == round = 1 /\ Ft.step = step /\ Ft.f * 10 + Ft.k = x
FaultFile(step, f) == round = 1 /\ Ft.step = step /\ Ft.f = f
MainFile == CHOOSE f \in 1..NF : File(f).kind = "main"
Root(f)  == f * 10 + 1
\* files of the load under test (round 1) / of the follow-up (round 2)
LoadedIn(rd) == IF rd = 1 THEN {f \in 1..NF : File(f).kind # "follow"} ELSE {f \in 1..NF : File(f).kind = "follow"}
\* models of the failed first load still marked "under construction" in the global repository
Stale == IF outcome[1] \in {"", "ok", "Boom:modelproc"} THEN {} ELSE repo \cap LoadedIn(1)

RECURSIVE AncSelf(_)
AncSelf(o) == IF o = 0 THEN {} ELSE {o} \cup AncSelf(Par(o))

\* what __init__ must receive
RuleAttrs(c) == CASE c = "Model" -> {"name", "imports", "elems"}
                  [] c = "Pkg"   -> {"name", "elems"}
                  [] c = "DefA"  -> {"name", "extends"}
                  [] OTHER       -> {"name"}
InitArgs(o) == RuleAttrs(Cls(o)) \cup (IF Par(o) # 0 THEN {"parent"} ELSE {})
InitRefs(o) == {Target(r) : r \in {x \in RefsOf(FileOf(o)) : Owner(x) = o}}

\* postorder (children in list order, then the object) of the objects with an object processor
RECURSIVE SeqOfSet(_)
SeqOfSet(T) == IF T = {} THEN <<>> ELSE LET m == CHOOSE x \in T : \A y \in T : x <= y
                                        IN <<m>> \o SeqOfSet(T \ {m})
RECURSIVE PostOrder(_), PostAll(_)
PostAll(s)   == IF s = <<>> THEN <<>> ELSE PostOrder(Head(s)) \o PostAll(Tail(s))
PostOrder(o) == PostAll(SeqOfSet(Kids(o))) \o (IF Cls(o) \in Procs THEN <<o>> ELSE <<>>)
RECURSIVE ConcatMap(_, _)
ConcatMap(Op(_), s) == IF s = <<>> THEN <<>> ELSE Op(Head(s)) \o ConcatMap(Op, Tail(s))

----------------------------------------------------------------------------
\* events (uniformly typed)
NoEv == [ev |-> "-", o |-> 0, k |-> 0, s |-> "", args |-> {}, refs |-> {}, b |-> FALSE]
Ev(n, o, k, s) == [ev |-> n, o |-> o, k |-> k, s |-> s, args |-> {}, refs |-> {}, b |-> FALSE]
Emit(e) == ev' = e
Tau     == ev' = NoEv

\* frames
Frame(f, top) == [f |-> f, pc |-> "parse", top |-> top, i |-> 1, todo |-> <<>>, prog |-> FALSE,
                  grp |-> <<>>, mine |-> {f}]
Top      == stack[Len(stack)]
SetTop(fr) == [stack EXCEPT ![Len(stack)] = fr]
Pop      == SubSeq(stack, 1, Len(stack) - 1)
TopIdx   == CHOOSE j \in 1..Len(stack) : stack[j].top /\ \A q \in (j + 1)..Len(stack) : ~stack[q].top
Running  == phase = "run" /\ exc = "" /\ stack # <<>>
At(pc)   == Running /\ Top.pc = pc

Dec(n)   == IF n > 0 THEN n - 1 ELSE 0
DecAll(fn, times) == [c \in User |-> IF fn[c] > times THEN fn[c] - times ELSE 0]
Raise(kind) == exc' = kind

----------------------------------------------------------------------------
InitWith(scenarios) ==
  /\ sc \in scenarios
  /\ round = 1 /\ phase = "run" /\ exc = ""
  /\ stack = <<Frame(MainFile, TRUE)>>
  /\ instr = [c \in User |-> 0] /\ held = {} /\ store = [c \in User |-> {}]
  /\ inited = [o \in AllObjs |-> 0] /\ alloc = {} /\ done = {} /\ resolved = {}
  /\ att = [r \in AllRefs |-> 0] /\ innerRun = {} /\ procd = {} /\ linked = {}
  /\ repo = {} /\ retained = {} /\ outcome = <<"", "">>
  /\ snap = [instr |-> <<>>, store |-> <<>>, retained |-> <<>>, inits |-> <<>>]
  /\ ev = NoEv

\* parse: a syntax error is raised before this parser touched the user classes
Parse ==
  /\ At("parse")
  /\ IF FaultFile("parse", Top.f)
     THEN Raise("syntax") /\ UNCHANGED stack
     ELSE stack' = SetTop([Top EXCEPT !.pc = "instrument"]) /\ UNCHANGED exc
  /\ Tau /\ UNCHANGED <<sc, round, phase, cvars, ovars, rvars>>

\* _replace_user_attr_methods: once per parser
Instrument ==
  /\ At("instrument")
  /\ instr' = [c \in User |-> instr[c] + 1]
  /\ held' = held \cup {Top.f}
  /\ stack' = SetTop([Top EXCEPT !.pc = "construct", !.i = 1])
  /\ Tau /\ UNCHANGED <<sc, round, phase, exc, store, ovars, rvars>>

\* process_node: objects allocated in preorder; a user object gets per-object storage
New ==
  /\ At("construct") /\ Top.i <= NObj(Top.f)
  /\ LET o == Top.f * 10 + Top.i IN
     /\ alloc' = alloc \cup {o}
     /\ done' = done \cup {x \in alloc : FileOf(x) = Top.f /\ x \notin AncSelf(o)}
     /\ IF IsUser(o)
        THEN store' = [store EXCEPT ![Cls(o)] = @ \cup {o}] /\ Emit(Ev("UserNew", o, 0, Cls(o)))
        ELSE UNCHANGED store /\ Tau
  /\ stack' = SetTop([Top EXCEPT !.pc = "refs"])
  /\ UNCHANGED <<sc, round, phase, exc, instr, held, inited, resolved, att, innerRun, procd, linked, rvars>>

\* the reference texts of the object just allocated go through the match processor
RefTexts ==
  /\ At("refs")
  /\ IF \E r \in RefsOf(Top.f) : FaultAt("matchproc", r) /\ Owner(r) = Top.f * 10 + Top.i
     THEN Raise("Boom:matchproc") /\ UNCHANGED stack
     ELSE stack' = SetTop([Top EXCEPT !.pc = "construct", !.i = @ + 1]) /\ UNCHANGED exc
  /\ Tau /\ UNCHANGED <<sc, round, phase, cvars, ovars, rvars>>

EndConstruct ==
  /\ At("construct") /\ Top.i > NObj(Top.f)
  /\ done' = done \cup ObjsOf(Top.f)
  /\ stack' = SetTop([Top EXCEPT !.pc = "register"])
  /\ Tau /\ UNCHANGED <<sc, round, phase, exc, cvars, inited, alloc, resolved, att, innerRun, procd, linked, rvars>>

\* the model joins the models under construction of its top-level load (and the global repository)
Register ==
  /\ At("register")
  /\ stack' = [stack EXCEPT ![TopIdx].grp = Append(@, Top.f),
                            ![Len(stack)].pc = "imports", ![Len(stack)].i = 1]
  /\ repo' = IF S.grepo /\ File(Top.f).kind # "inner" /\ ~File(Top.f).prim THEN repo \cup {Top.f} ELSE repo
  /\ Tau /\ UNCHANGED <<sc, round, phase, exc, cvars, ovars, retained, outcome, snap>>

\* import statements in order: already loaded in this load -> shared, else nested load
Import ==
  /\ At("imports") /\ Top.i <= Len(File(Top.f).imports)
  /\ LET g == File(Top.f).imports[Top.i] IN
     IF g \in stack[TopIdx].mine
     THEN /\ linked' = linked \cup {<<Top.f, g>>}
          /\ stack' = SetTop([Top EXCEPT !.i = @ + 1])
     ELSE /\ stack' = Append([stack EXCEPT ![TopIdx].mine = @ \cup {g}], Frame(g, FALSE))
          /\ UNCHANGED linked
  /\ Tau /\ UNCHANGED <<sc, round, phase, exc, cvars, inited, alloc, done, resolved, att, innerRun, procd, rvars>>

ImportsDone ==
  /\ At("imports") /\ Top.i > Len(File(Top.f).imports)
  /\ stack' = SetTop([Top EXCEPT !.pc = IF Top.top THEN "round" ELSE "mprocs"])
  /\ Tau /\ UNCHANGED <<sc, round, phase, exc, cvars, ovars, rvars>>

\* a nested model: its model processors run when its load returns (references still unresolved)
NestedModelProc ==
  /\ At("mprocs")
  /\ Emit(Ev("ModelProc", Top.f, 0, ""))
  /\ IF FaultFile("modelproc", Top.f)
     THEN Raise("Boom:modelproc") /\ UNCHANGED stack
     ELSE stack' = SetTop([Top EXCEPT !.pc = "nret"]) /\ UNCHANGED exc
  /\ UNCHANGED <<sc, round, phase, cvars, ovars, rvars>>

NestedReturn ==
  /\ At("nret")
  /\ LET p == Len(stack) - 1 IN
     /\ stack' = [Pop EXCEPT ![p].i = @ + 1]
     /\ linked' = linked \cup {<<stack[p].f, Top.f>>}
  /\ Tau /\ UNCHANGED <<sc, round, phase, exc, cvars, inited, alloc, done, resolved, att, innerRun, procd, rvars>>

\* resolution rounds over the models under construction, references in textual order
Unres(f) == SeqOfSet({r \in RefsOf(f) : r \notin resolved})
BeginRound ==
  /\ At("round")
  /\ IF S.grepo /\ File(Top.f).kind # "inner" /\ Stale # {}
     THEN \* a model left "under construction" in the global repository joins this load and breaks it
          Raise("AttributeError") /\ UNCHANGED stack
     ELSE LET td == ConcatMap(Unres, Top.grp) IN
          /\ stack' = SetTop(IF td = <<>> THEN [Top EXCEPT !.pc = "endc", !.i = 1]
                             ELSE [Top EXCEPT !.pc = "resolve", !.todo = td, !.prog = FALSE])
          /\ UNCHANGED exc
  /\ Tau /\ UNCHANGED <<sc, round, phase, cvars, ovars, rvars>>

PostOf(r) == IF FaultAt("unresolvable", r) THEN 9 ELSE RefRec(r).post

\* models the provider walks for r: the owner's model, then its imports in order up to the target's
Searched(r) ==
  LET f == FileOf(r)  im == File(f).imports
      upto == IF FaultAt("unknown", r) \/ \A j \in 1..Len(im) : im[j] # RefRec(r).tf
              THEN Len(im) ELSE CHOOSE j \in 1..Len(im) : im[j] = RefRec(r).tf /\ \A q \in 1..(j - 1) : im[q] # RefRec(r).tf
  IN {f} \cup (IF RefRec(r).tf = f /\ ~FaultAt("unknown", r) THEN {} ELSE {im[j] : j \in 1..upto})
\* attributes of a user object live in the store and are readable only through the instrumentation
Unreadable(r) == \E c \in User : instr[c] = 0 /\ \E u \in store[c] : FileOf(u) \in Searched(r)

TryRef ==
  /\ At("resolve") /\ Top.todo # <<>>
  /\ LET r == Head(Top.todo) IN
     IF RefRec(r).inner # 0 /\ r \notin innerRun
     THEN \* the provider first loads a string with the same metamodel
          /\ innerRun' = innerRun \cup {r}
          /\ stack' = Append(stack, Frame(RefRec(r).inner, TRUE))
          /\ Tau /\ UNCHANGED <<exc, resolved, att>>
     ELSE IF FaultAt("provider", r)
     THEN /\ Emit(Ev("Resolve", r, 0, "raise")) /\ Raise("Boom:provider")
          /\ UNCHANGED <<stack, resolved, att, innerRun>>
     ELSE IF att[r] < PostOf(r)
     THEN /\ Emit(Ev("Resolve", r, 0, "postponed"))
          /\ att' = [att EXCEPT ![r] = @ + 1]
          /\ stack' = SetTop([Top EXCEPT !.todo = Tail(@)])
          /\ UNCHANGED <<exc, resolved, innerRun>>
     ELSE IF Unreadable(r)
     THEN /\ Tau /\ Raise("AttributeError") /\ UNCHANGED <<stack, resolved, att, innerRun>>
     ELSE IF FaultAt("unknown", r)
     THEN /\ Emit(Ev("Resolve", r, 0, "unknown")) /\ Raise("unknown")
          /\ UNCHANGED <<stack, resolved, att, innerRun>>
     ELSE /\ Emit(Ev("Resolve", r, Target(r), "resolved"))
          /\ resolved' = resolved \cup {r}
          /\ stack' = SetTop([Top EXCEPT !.todo = Tail(@), !.prog = TRUE])
          /\ UNCHANGED <<exc, att, innerRun>>
  /\ UNCHANGED <<sc, round, phase, cvars, inited, alloc, done, procd, linked, rvars>>

GrpRefs(fr) == UNION {RefsOf(f) : f \in Range(fr.grp)}
GrpObjs(fr) == UNION {ObjsOf(f) : f \in Range(fr.grp)}

EndRound ==
  /\ At("resolve") /\ Top.todo = <<>>
  /\ IF GrpRefs(Top) \subseteq resolved
     THEN stack' = SetTop([Top EXCEPT !.pc = "endc", !.i = 1]) /\ UNCHANGED exc
     ELSE IF ~Top.prog THEN Raise("unresolvable") /\ UNCHANGED stack
     ELSE stack' = SetTop([Top EXCEPT !.pc = "round"]) /\ UNCHANGED exc
  /\ Tau /\ UNCHANGED <<sc, round, phase, cvars, ovars, rvars>>

\* _end_model_construction(m): the parser of m restores, then every user object of m is initialised
EndConstruction ==
  /\ At("endc") /\ Top.i <= Len(Top.grp)
  /\ LET m == Top.grp[Top.i] IN
     IF File(m).prim /\ "NoRestoreForPrimitiveModel" \in Dev
     THEN UNCHANGED <<instr, held>>     \* a plain value is never "under construction": nothing ends
     ELSE /\ instr' = [c \in User |-> Dec(instr[c])]
          /\ held' = held \ {m}
  /\ stack' = SetTop([Top EXCEPT !.pc = "inits"])
  /\ Tau /\ UNCHANGED <<sc, round, phase, exc, store, ovars, rvars>>

UserInit(o) ==
  /\ At("inits") /\ o \in UserObjs(Top.grp[Top.i]) /\ inited[o] = 0
  /\ store' = [store EXCEPT ![Cls(o)] = @ \ {o}]
  /\ inited' = [inited EXCEPT ![o] = @ + 1]
  /\ Emit([Ev("UserInit", o, Par(o), Cls(o)) EXCEPT !.args = InitArgs(o), !.refs = InitRefs(o)])
  /\ IF FaultAt("init", o) THEN Raise("Boom:init") ELSE UNCHANGED exc
  /\ UNCHANGED <<sc, round, phase, stack, instr, held, alloc, done, resolved, att, innerRun, procd, linked, rvars>>

InitsDone ==
  /\ At("inits") /\ \A o \in UserObjs(Top.grp[Top.i]) : inited[o] > 0
  /\ stack' = SetTop([Top EXCEPT !.pc = "endc", !.i = @ + 1])
  /\ Tau /\ UNCHANGED <<sc, round, phase, exc, cvars, ovars, rvars>>

ProcList(f) == IF File(f).prim THEN <<>> ELSE PostOrder(Root(f))
EndcDone ==
  /\ At("endc") /\ Top.i > Len(Top.grp)
  /\ stack' = SetTop([Top EXCEPT !.pc = "procs", !.todo = ConcatMap(ProcList, Top.grp)])
  /\ Tau /\ UNCHANGED <<sc, round, phase, exc, cvars, ovars, rvars>>

CallProcessor ==
  /\ At("procs") /\ Top.todo # <<>>
  /\ LET o == Head(Top.todo) IN
     /\ procd' = procd \cup {o}
     /\ Emit(Ev("ObjProc", o, 0, Cls(o)))
     /\ IF FaultAt("objproc", o) THEN Raise("Boom:objproc") /\ UNCHANGED stack
        ELSE stack' = SetTop([Top EXCEPT !.todo = Tail(@)]) /\ UNCHANGED exc
  /\ UNCHANGED <<sc, round, phase, cvars, inited, alloc, done, resolved, att, innerRun, linked, rvars>>

ProcsDone ==
  /\ At("procs") /\ Top.todo = <<>>
  /\ stack' = SetTop([Top EXCEPT !.pc = "return"])
  /\ Tau /\ UNCHANGED <<sc, round, phase, exc, cvars, ovars, rvars>>

\* model processors of the main model (the parser's work is over)
ModelProcessor ==
  /\ At("return")
  /\ Emit(Ev("ModelProc", Top.f, 0, ""))
  /\ IF FaultFile("modelproc", Top.f)
     THEN Raise("Boom:modelproc") /\ UNCHANGED stack
     ELSE stack' = SetTop([Top EXCEPT !.pc = "ret2"]) /\ UNCHANGED exc
  /\ UNCHANGED <<sc, round, phase, cvars, ovars, rvars>>

Return ==
  /\ At("ret2")
  /\ Emit(Ev("LoadEnd", Top.f, 0, "ok"))
  /\ stack' = Pop
  /\ IF Len(stack) = 1
     THEN phase' = "post" /\ outcome' = [outcome EXCEPT ![round] = "ok"]
     ELSE UNCHANGED <<phase, outcome>>
  /\ UNCHANGED <<sc, round, exc, cvars, ovars, repo, retained, snap>>

----------------------------------------------------------------------------
\* failure: the exception unwinds frame by frame
ParserActive(fr) == fr.pc \notin {"mprocs", "nret", "return", "ret2"}

\* the handler of one frame (except: self._restore_user_attr_methods())
HandlerDecs(fr) == IF ~ParserActive(fr) THEN 0
                   ELSE IF fr.f \in held \/ "RestoreWithoutInstrument" \in Dev THEN 1 ELSE 0

\* frames inside parse_tree_to_objgraph's try block: their handler removes the models under
\* construction from the repositories -- which it finds through attributes of the frame's root
\* (during resolution .. processors the handler has the list of models at hand; before that it
\* finds them through attributes of the frame's root object)
ListPcs == {"round", "resolve", "endc", "inits", "procs"}
RootPcs == {"register", "imports"}
RootUnreadable(f) == ~File(f).prim /\ LET o == Root(f) IN IsUser(o) /\ o \in store[Cls(o)] /\ instr[Cls(o)] = 0
Cleans(fr) == fr.pc \in ListPcs \/ (fr.pc \in RootPcs /\ ~RootUnreadable(fr.f))

Unwind ==
  /\ phase = "run" /\ exc # "" /\ stack # <<>>
  /\ LET fr == Top
         d1 == HandlerDecs(fr)
         h1 == IF ParserActive(fr) THEN held \ {fr.f} ELSE held
     IN
     IF ~fr.top
     THEN /\ instr' = DecAll(instr, d1) /\ held' = h1
          /\ repo' = IF Cleans(fr) THEN repo \ stack[TopIdx].mine ELSE repo
          /\ stack' = Pop /\ Tau
          /\ UNCHANGED <<phase, exc, store, outcome>>
     ELSE \* the boundary of a top-level load: what a failed load leaves behind
          LET never == IF "NoRestoreForPrimitiveModel" \in Dev THEN {f \in fr.mine : File(f).prim} ELSE {}
              rest == (h1 \cap fr.mine) \ never
              d2   == IF "RestoreOnlyMainParser" \in Dev THEN 0 ELSE Cardinality(rest)
              mineObjs == UNION {ObjsOf(f) : f \in fr.mine}
              swallow == Len(stack) > 1 /\ RefRec(Head(stack[Len(stack) - 1].todo)).swallow
          IN
          /\ instr' = DecAll(instr, d1 + d2)
          /\ held' = IF "RestoreOnlyMainParser" \in Dev THEN h1 ELSE h1 \ (fr.mine \ never)
          /\ store' = IF "StoreKeptOnFailure" \in Dev THEN store
                      ELSE [c \in User |-> store[c] \ mineObjs]
          /\ repo' = IF "NoCleanupOnModelProcessorFailure" \in Dev /\ fr.pc = "return" THEN repo
                     ELSE IF fr.pc \in RootPcs /\ RootUnreadable(fr.f) THEN repo
                     ELSE repo \ fr.mine
          /\ Emit(Ev("LoadEnd", fr.f, 0, exc))
          /\ stack' = Pop
          /\ IF Len(stack) = 1
             THEN phase' = "post" /\ outcome' = [outcome EXCEPT ![round] = exc] /\ exc' = ""
             ELSE /\ UNCHANGED <<phase, outcome>>
                  /\ exc' = IF swallow THEN "" ELSE exc
  /\ UNCHANGED <<sc, round, ovars, retained, snap>>

----------------------------------------------------------------------------
\* what stays reachable from state that outlives the call
Out(o) == {x \in Kids(o) : x \in done}
          \cup (IF o \in done /\ Par(o) # 0 THEN {Par(o)} ELSE {})
          \cup {Target(r) : r \in {x \in resolved : Owner(x) = o}}
          \* import statements (provider of the ImportURI kind): the Import children of a root (not
          \* numbered as objects) hold the imported models and point back to the root.  With a provider
          \* that finds the other files by a file pattern (S.prov = "glob") a model holds them only
          \* through its repository, which the failure handlers empty.
          \cup (IF IdxOf(o) = 1 /\ S.prov = "uri"
                THEN {Root(p[2]) : p \in {q \in linked : q[1] = FileOf(o)}} ELSE {})
          \cup (IF IdxOf(o) = 1 /\ S.prov = "uri" /\ File(FileOf(o)).imports # <<>>
                   /\ (alloc \cap ObjsOf(FileOf(o))) # {o}
                THEN {o} ELSE {})
RECURSIVE Reach(_)
Reach(T) == LET N == T \cup UNION {Out(x) : x \in T} IN IF N = T THEN T ELSE Reach(N)
Reachable == Reach(UNION {Out(u) : u \in UNION {store[c] : c \in User}} \cup {Root(f) : f \in repo})

StSeq == [i \in 1..Len(S.user) |-> instr[S.user[i]]]
StoreSeq == [i \in 1..Len(S.user) |-> SeqOfSet(store[S.user[i]])]
InitList == SeqOfSet({o \in AllObjs : inited[o] > 0})

Post ==
  /\ phase = "post"
  /\ LET rt == IF round = 1 /\ outcome[1] # "ok" THEN Reachable ELSE {} IN   \* observed for the load under test only
     /\ retained' = IF round = 1 THEN rt ELSE retained
     /\ snap' = IF round = 1 THEN [instr |-> StSeq, store |-> StoreSeq, retained |-> SeqOfSet(rt), inits |-> InitList]
                ELSE snap
     /\ Emit([Ev("Post", 0, 0, "") EXCEPT !.b = outcome[round] = "ok", !.refs = rt])
  /\ phase' = IF round = 1 /\ S.follow # 0 THEN "between" ELSE IF round = 2 THEN "cmp" ELSE "end"
  /\ UNCHANGED <<sc, round, stack, exc, cvars, ovars, repo, outcome>>

\* the follow-up load with the same metamodel
StartFollow ==
  /\ phase = "between"
  /\ round' = 2 /\ phase' = "run"
  /\ stack' = <<Frame(S.follow, TRUE)>>
  /\ Tau /\ UNCHANGED <<sc, exc, cvars, ovars, rvars>>

\* its result compared with a fresh metamodel's: while a class that has its own attribute-access
\* methods is still instrumented those methods are bypassed, which shows in the loaded objects
FollowSame == outcome[2] = "ok" /\ \A c \in Own : instr[c] = 0
Follow ==
  /\ phase = "cmp"
  /\ Emit([Ev("Follow", 0, 0, outcome[2]) EXCEPT !.b = FollowSame])
  /\ phase' = "end"
  /\ UNCHANGED <<sc, round, stack, exc, cvars, ovars, rvars>>

Next ==
  \/ Parse \/ Instrument \/ New \/ RefTexts \/ EndConstruct \/ Register \/ Import \/ ImportsDone
  \/ NestedModelProc \/ NestedReturn \/ BeginRound \/ TryRef \/ EndRound
  \/ EndConstruction \/ (\E o \in AllObjs : UserInit(o)) \/ InitsDone \/ EndcDone
  \/ CallProcessor \/ ProcsDone \/ ModelProcessor \/ Return
  \/ Unwind \/ Post \/ StartFollow \/ Follow


----------------------------------------------------------------------------
\* Properties
Idle == stack = <<>> /\ phase \in {"between", "cmp", "end"}

\* C14: each user object is initialised at most once, and exactly once when its load succeeds
C14_InitOnce ==
  /\ \A o \in AllObjs : inited[o] <= 1 /\ (inited[o] > 0 => IsUser(o))
  /\ \A rd \in 1..2 : (Idle /\ rd <= round /\ outcome[rd] = "ok") =>
        \A o \in alloc : (IsUser(o) /\ File(FileOf(o)).kind \in {"main", "import", "follow"}
                          /\ FileOf(o) \in LoadedIn(rd)) => inited[o] = 1

\* C14: __init__ runs after every reference of every model of the load is resolved and before
\* any object processor of the load, with exactly the rule's attributes (+ parent iff contained)
C14_InitWhen ==
  ev.ev = "UserInit" =>
     /\ GrpRefs(stack[TopIdx]) \subseteq resolved
     /\ procd \cap GrpObjs(stack[TopIdx]) = {}
     /\ ev.args = InitArgs(ev.o) /\ ev.refs = InitRefs(ev.o) /\ ev.k = Par(ev.o)
C14_ProcAfterInit ==
  ev.ev = "ObjProc" => \A o \in GrpObjs(stack[TopIdx]) : IsUser(o) => inited[o] = 1

\* C14/C15: after loading, successful or not, classes are uninstrumented and hold no storage
C14_15_Clean == Idle => /\ \A c \in User : instr[c] = 0 /\ store[c] = {}
                        /\ held = {}
\* per-object storage is only ever used under instrumentation, one increment per parser at work
C14_Balanced == /\ \A c \in User : instr[c] = Cardinality(held)
                /\ \A c \in User : \A u \in store[c] :
                      instr[c] > 0 \/ (stack # <<>> /\ Top.pc = "inits" /\ FileOf(u) = Top.grp[Top.i])

\* C15: nothing of a failed load stays reachable, nothing stays cached
C15_NoRetention == (Idle /\ outcome[1] # "ok") => retained = {} /\ repo \cap LoadedIn(1) = {}
\* C15: the follow-up load equals a fresh metamodel's
C15_FollowFresh == phase = "end" /\ round = 2 =>
                     /\ ev.b /\ outcome[2] = "ok"
                     /\ \A o \in UserObjs(S.follow) : inited[o] = 1

\* summary printed at the end of a behaviour for the S->I comparison (a scenario may have several:
\* the order in which the user objects of a model are initialised is not prescribed)
Summary == [id |-> S.id, res1 |-> outcome[1], res2 |-> outcome[2], post1 |-> snap,
            instr |-> StSeq, store |-> StoreSeq, inits |-> InitList, same |-> FollowSame]
EmitSummary == phase = "end" => PrintT("RESULT|" \o ToJson(Summary))
=============================================================================
