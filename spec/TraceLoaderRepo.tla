-------------------------- MODULE TraceLoaderRepo --------------------------
(* I->S: sessions recorded from the real loader validated against            *)
(* LoaderRepo!Next.  Every trace brings its own scenario (file system,        *)
(* provider kind, session); the steps of the module that the harness cannot   *)
(* observe are silent.  Many traces per TLC run (tid chosen in TraceInit);    *)
(* register 3 + tid keeps the furthest event index reached; a trace is accepted   *)
(* iff all its events were consumed.                                          *)
(* Events (DESIGN.md Appendix C, the observable part):                        *)
(*   LoadBegin{file} Repair Open{file} ModelProc{file} ObjProc{file}          *)
(*   LoadEnd{res, grepo, incl, local, opens, params, tg}  (= LoadEnd + Post)  *)
EXTENDS LoaderRepo, IOUtils

\* registers: 1 the traces (Seq of [sc, events]), 2 their number, 3 + t the furthest event index reached in trace t, 3 + NT + t the
\* deviation clauses used by a behaviour that got there
ASSUME LET T == JsonDeserialize(IOEnv.VT_TRACES) IN
         /\ TLCSet(1, T) /\ TLCSet(2, Len(T)) /\ TLCSet(3, 0)
         /\ \A t \in 1..Len(T) : TLCSet(3 + t, 0) /\ TLCSet(3 + Len(T) + t, {})
Traces   == TLCGet(1)
NT       == TLCGet(2)
TScSeq   == <<>>
TListed  == Range(JsonDeserialize(IOEnv.VT_DEVS))   \* clauses that may explain a trace
TForce   == FALSE

VARIABLES tid,                 \* the trace this behaviour follows
          l                    \* number of its events consumed so far
tvars == <<vars, tid, l>>

TraceInit == tid \in 1..NT /\ l = 0 /\ sc = Traces[tid].sc /\ InitRest

Ev(k) == Traces[tid].events[k]
Has(k) == k <= Len(Traces[tid].events)
Is(k, name) == Has(k) /\ Ev(k).e = name

\* the logged summary of a finished load against the module's summary
Matches(e, s) ==
  /\ e.res = s.res
  /\ Range(e.grepo) = s.grepo
  /\ Range(e.incl) = s.incl
  /\ {[m |-> x.m, fs |-> Range(x.fs)] : x \in Range(e.local)} = s.local
  /\ Range(e.opens) = s.opens
  /\ Range(e.params) = s.params
  /\ {<<x.m, x.i>> : x \in Range(e.tg)} = {<<y.m, y.i>> : y \in s.tg}
  /\ \A x \in Range(e.tg) : \E y \in s.tg : y.m = x.m /\ y.i = x.i /\ x.to \in y.to

Finished == step' = step + 1 /\ Len(hist') = Len(hist) + 1
EndMatches(k) == Is(k, "LoadEnd") /\ Matches(Ev(k), hist'[Len(hist')])

Silent ==
  /\ \/ CheckParams /\ ~Finished
     \/ (CacheStep /\ ~Finished)
     \/ NestedCache \/ SkipOpen \/ Parse \/ Register \/ ImportNext \/ ImportGlobHits \/ ImportGlobPick \/ ImportsDone
     \/ Resolve \/ ObjProcsDone
     \/ \E m \in DOMAIN models : ObjProcs(m) /\ models[m].defs = <<>>
  /\ l' = l

Observed ==
  \/ /\ Is(l + 1, "LoadBegin") /\ StartLoad /\ Op.file = Ev(l + 1).file /\ l' = l + 1
  \/ /\ Is(l + 1, "Repair") /\ Repair /\ l' = l + 1
  \/ /\ Is(l + 1, "Declare") /\ Declare /\ l' = l + 1
  \/ /\ CacheStep /\ Finished /\ EndMatches(l + 1) /\ l' = l + 1
  \/ /\ Is(l + 1, "Open") /\ OpenFile(Ev(l + 1).file) /\ l' = l + 1
  \/ /\ Is(l + 1, "ModelProc") /\ NestedMP /\ Top.file = Ev(l + 1).file /\ l' = l + 1
  \/ /\ Is(l + 1, "ObjProc") /\ l' = l + 1
     /\ \E m \in DOMAIN models : ObjProcs(m) /\ models[m].defs # <<>> /\ m.f = Ev(l + 1).file
  \* the main model's processors: the call, then either the return or the exception
  \/ /\ Is(l + 1, "ModelProc") /\ MainMP /\ Top.m.f = Ev(l + 1).file
     /\ IF Finished THEN EndMatches(l + 2) /\ l' = l + 2 ELSE l' = l + 1
  \/ /\ CheckParams /\ Finished /\ EndMatches(l + 1) /\ l' = l + 1
  \/ /\ Cleanup /\ EndMatches(l + 1) /\ l' = l + 1

TraceNext == (Silent \/ Observed) /\ tid' = tid

TraceSpec == TraceInit /\ [][TraceNext]_tvars

Progress == IF l > TLCGet(3 + tid) THEN TLCSet(3 + tid, l) /\ TLCSet(3 + NT + tid, dev) ELSE TRUE

Report == \A t \in 1..NT :
            PrintT("TRACE|" \o ToJson([tid |-> t, reached |-> TLCGet(3 + t), len |-> Len(Traces[t].events),
                                       dev |-> TLCGet(3 + NT + t)]))
=============================================================================
