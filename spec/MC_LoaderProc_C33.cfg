SPECIFICATION Spec
CONSTANTS
  Meta <- CarrierMeta
  Scenarios <- MCScenarios
  Dev <- EnvDev
  Family <- EnvFamily
  MaxObjs <- EnvMaxObjs
  MaxFiles <- EnvMaxFiles
  MaxRefs <- EnvMaxRefs
  MaxPostpone <- EnvMaxPostpone
INVARIANT ScenarioOK
INVARIANT C33_Located
INVARIANT C33_Nchar
INVARIANT C33_StopsAtFault
INVARIANT C13_Order
CONSTRAINT EmitInit
CHECK_DEADLOCK FALSE
