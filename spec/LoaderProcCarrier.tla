------------------------- MODULE LoaderProcCarrier -------------------------
(* The containment structure of the carrier grammar used by vt/drive/procs.py *)
(* (the grammar text is quoted in MC_LoaderProc.tla): per object kind its     *)
(* containment attributes in meta-attribute order with the declared rule, and *)
(* the kinds an attribute typed with a rule can hold.  The driver checks this *)
(* table against the real metamodel before every load.                        *)
CarrierMeta ==
  [Model   |-> << [name |-> "imports", many |-> TRUE, decl |-> "Import"],
                  [name |-> "first", many |-> FALSE, decl |-> "Def"],
                  [name |-> "root", many |-> FALSE, decl |-> "Pkg"],
                  [name |-> "elems", many |-> TRUE, decl |-> "Elem"] >>,
   Import  |-> << >>,
   Pkg     |-> << [name |-> "head", many |-> FALSE, decl |-> "DefB"],
                  [name |-> "defs", many |-> TRUE, decl |-> "Def"],
                  [name |-> "elems", many |-> TRUE, decl |-> "Elem"],
                  [name |-> "note", many |-> FALSE, decl |-> "Note"] >>,
   Note    |-> << >>,
   Grp     |-> << [name |-> "items", many |-> TRUE, decl |-> "Def"] >>,
   Box     |-> << [name |-> "inner", many |-> FALSE, decl |-> "Cell"] >>,
   Slot    |-> << [name |-> "val", many |-> FALSE, decl |-> "Value"] >>,
   Bag     |-> << [name |-> "vals", many |-> TRUE, decl |-> "Value"] >>,
   Plain   |-> << >>,
   Cell    |-> << >>, DefA |-> << >>, DefB |-> << >>, Use |-> << >>, UseList |-> << >>]

Allowed(decl) ==
  CASE decl = "Import" -> {"Import"}
    [] decl = "Def"    -> {"DefA", "DefB"}
    [] decl = "DefB"   -> {"DefB"}
    [] decl = "Cell"   -> {"Cell"}
    [] decl = "Pkg"    -> {"Pkg"}
    [] decl = "Note"   -> {"Note"}
    [] decl = "Value"  -> {"Plain", "Cell"}      \* Value: Tag | Cell;  Tag is a match rule
    [] decl = "Elem"   -> {"Pkg", "Grp", "Box", "Slot", "Bag", "DefA", "DefB", "Use", "UseList"}
=============================================================================
