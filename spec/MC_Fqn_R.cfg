SPECIFICATION Spec
CONSTANTS
  Dev = {"FqnWalksRefs"}
  MaxCross = 2
INVARIANT C10
CHECK_DEADLOCK FALSE
