SPECIFICATION Spec
CONSTANTS
  Dev = {"FqnWalksRefs"}
  MaxCross = 2
  GrpSlots = {}
  TClasses = {"Cls"}
INVARIANT C10
CHECK_DEADLOCK FALSE
