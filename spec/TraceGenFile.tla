--------------------------- MODULE TraceGenFile ---------------------------
(* I->S: recorded generator runs validated against GenFile!Next.           *)
(* A trace is [blind, events]; an event is a record with a `name` and the  *)
(* fields its action needs:                                                *)
(*   Start[ow, pre, dest, n]  Skip  Open[target]  Write  Flush  Close      *)
(*   Fault[kind]  End[raised]  Observe[cls, others, dest]  Rerun           *)
(* A Close event on a broken output is the giving up of that output.       *)
(* Many traces per TLC run: `tid` is chosen in TraceInit, `l` counts the   *)
(* consumed events, register tid keeps the furthest l reached; a trace is  *)
(* accepted iff all its events were consumed.  In a `blind` trace the I/O  *)
(* of the generator could not be observed: Skip/Open/Write/Close are then  *)
(* silent steps (they do not consume an event).                            *)
EXTENDS GenFile, Sequences, IOUtils, Json

Traces == JsonDeserialize(IOEnv.VT_TRACES)
TDev   == IF IOEnv.VT_DEV = "" THEN {} ELSE {IOEnv.VT_DEV}
TMaxN  == 1000000

VARIABLES tid, l
tvars == <<vars, tid, l>>

ASSUME \A t \in 1..Len(Traces) : TLCSet(t, 0)

TraceInit == /\ tid \in 1..Len(Traces) /\ l = 0
             /\ Init
             /\ file = Traces[tid].events[1].pre /\ dest = Traces[tid].events[1].dest

Step(e) ==
  CASE e.name = "Start"   -> Start(e.ow, e.n) /\ e.pre = file /\ e.dest = dest
    [] e.name = "Skip"    -> Skip
    [] e.name = "Open"    -> Open(e.target)
    [] e.name = "Write"   -> Write
    [] e.name = "Flush"   -> Flush
    [] e.name = "Close"   -> Close \/ Abandon
    [] e.name = "Fault"   -> Fault(e.kind)
    [] e.name = "End"     -> End(e.raised)
    [] e.name = "Observe" -> Observe(e.cls, e.others, e.dest)
    [] e.name = "Rerun"   -> Rerun
    [] OTHER -> FALSE

TraceNext ==
  \/ /\ l < Len(Traces[tid].events)
     /\ Step(Traces[tid].events[l + 1])
     /\ l' = l + 1 /\ tid' = tid
  \/ /\ Traces[tid].blind
     /\ (Skip \/ Open(TRUE) \/ Write \/ Close)
     /\ UNCHANGED <<tid, l>>

TraceSpec == TraceInit /\ [][TraceNext]_tvars

Progress == TLCSet(tid, IF l > TLCGet(tid) THEN l ELSE TLCGet(tid))

Report == \A t \in 1..Len(Traces) :
            PrintT("TRACE|" \o ToJson([tid |-> t, reached |-> TLCGet(t), len |-> Len(Traces[t].events)]))
=============================================================================
