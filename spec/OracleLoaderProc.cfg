SPECIFICATION OSpec
CONSTANTS
  Meta <- CarrierMeta
  Scenarios <- NoScenarios
  Dev <- NoDev
CHECK_DEADLOCK FALSE
