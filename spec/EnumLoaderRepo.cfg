SPECIFICATION Spec
CONSTANTS
  ScSeq = {}
  Listed = {}
  Force = FALSE
CHECK_DEADLOCK FALSE
