SPECIFICATION Spec
CONSTANTS
  Scenarios = {}
  DevSets = {}
CHECK_DEADLOCK FALSE
