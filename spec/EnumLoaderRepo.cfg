SPECIFICATION Spec
CONSTANTS
  ScSeq <- NoScenarios
  Listed <- NoDevs
  Force = FALSE
CHECK_DEADLOCK FALSE
