SPECIFICATION TraceSpec
CONSTANTS
  ScSeq <- TScSeq
  Listed <- TListed
  Force <- TForce
CONSTRAINT Progress
POSTCONDITION Report
CHECK_DEADLOCK FALSE
