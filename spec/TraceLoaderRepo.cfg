SPECIFICATION TraceSpec
CONSTANTS
  Scenarios <- TNone
  DevSets <- TDevSets
CONSTRAINT Progress
POSTCONDITION Report
CHECK_DEADLOCK FALSE
