SPECIFICATION Spec
CONSTANTS
  Dev <- NoDev
INVARIANT InvExitStatus
INVARIANT InvNamesNormalised
INVARIANT InvFlagsAndValues
INVARIANT InvDeclaredEnforced
INVARIANT InvGenerateOutcome
INVARIANT InvCheckOutcome
INVARIANT InvModelParams
CHECK_DEADLOCK FALSE
