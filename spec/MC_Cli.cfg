SPECIFICATION Spec
CONSTANTS
  Dev <- NoDev
INVARIANT InvExitStatus
INVARIANT InvNamesNormalised
INVARIANT InvFlagsAndValues
INVARIANT InvDeclaredEnforced
INVARIANT InvGenerateOutcome
INVARIANT InvCheckOutcome
CHECK_DEADLOCK FALSE
