------------------------------ MODULE GenFile ------------------------------
(***************************************************************************)
(* The output-file protocol of a generator that writes through textX's     *)
(* generation helpers (property C31; textx/generators.py gen_file,         *)
(* textx/export.py metamodel_export / model_export; docs/src/registration  *)
(* "textX generators": skip existing files unless --overwrite).            *)
(*                                                                         *)
(* One generator run produces one output file from n chunks.  The          *)
(* documented behaviour is all-or-nothing: whatever happens, the target is *)
(* either untouched (absent, or still the previous complete content) or    *)
(* the complete new content.  The protocol that has this property writes   *)
(* the chunks somewhere else (`tmp`) and commits on a successful close;    *)
(* on a failure the temporary is discarded.                                *)
(*                                                                         *)
(* The target path may be a symbolic link (to an older complete output, or *)
(* dangling): `file` is what reading the path yields (links followed, as   *)
(* gen_file's os.path.exists does), `dest` is the file behind the link.    *)
(* All-or-nothing covers both: a failed run changes neither.  A successful *)
(* run may write through the link or replace the link (not prescribed).    *)
(* An I/O call of the run may fail with any kind of failure (an OSError, a *)
(* ValueError such as UnicodeEncodeError, a KeyboardInterrupt, ...).  A    *)
(* failed call (Fault) has no effect and breaks the output being written;  *)
(* the run may give that output up and try again (a fallback) or return    *)
(* with the failure -- several calls of one run may fail.  What is         *)
(* prescribed is the outcome: a run that returns with a failure has        *)
(* changed nothing, a run that returns normally has skipped or produced    *)
(* the complete output, and the commit (Close) is the run's last I/O step. *)
(*                                                                         *)
(* Deviation clause  OpenTruncatesTarget : the target itself is opened for *)
(* writing (truncated) and the chunks go straight into it.                 *)
(* Deviation clause  NoCleanup : the temporary is left behind on failure   *)
(* (not a known defect; used to show the module is not vacuous).           *)
(***************************************************************************)
EXTENDS Naturals, TLC

CONSTANTS MaxN,     \* bound on the number of chunks (model checking only)
          Dev       \* deviation clauses switched on ({} = documented behaviour)

DeviationNames == {"OpenTruncatesTarget", "NoCleanup"}
Truncates == "OpenTruncatesTarget" \in Dev

VARIABLES
  file,      \* the target on disk (through a link if it is one): "absent" | "old" | "partial" | "complete"
  dest,      \* the file behind the link when the target is a symbolic link, else "none"
  pdest,     \* what dest was when the run started
  tmp,       \* anything else the run has put into the output directory: "none" | "partial" | "complete"
  pc,        \* "idle" | "started" | "open" | "broken" | "done" | "skipped" | "crashed"
  faulted,   \* an I/O call of this run has failed
  reported,  \* the run has returned to its caller (normally or with the failure)
  ow,        \* the run's overwrite flag
  pre,       \* what the target was when the run started
  n,         \* chunks the complete output consists of
  w,         \* chunks written so far in this run
  run        \* 0 before the first run, 1, 2 (the later run without --overwrite)

vars == <<file, dest, pdest, tmp, pc, faulted, reported, ow, pre, n, w, run>>

\* target kinds: absent, an old complete output, a link to an old complete output, a dangling link
Kinds == { <<"absent", "none">>, <<"old", "none">>, <<"old", "old">>, <<"absent", "absent">> }
FailureKinds == {"OSError", "ValueError", "TypeError", "AttributeError", "RuntimeError",
                 "KeyboardInterrupt", "SystemExit", "GeneratorExit"}

Init == /\ \E k \in Kinds : file = k[1] /\ dest = k[2]
        /\ pdest = dest /\ tmp = "none" /\ pc = "idle" /\ faulted = FALSE /\ reported = FALSE
        /\ ow = FALSE /\ pre = file /\ n = 0 /\ w = 0 /\ run = 0

\* the generator is started on a target that is absent or holds an old complete output
Start(o, k) ==
  /\ pc = "idle" /\ run = 0 /\ k >= 1
  /\ pc' = "started" /\ ow' = o /\ pre' = file /\ pdest' = dest /\ n' = k /\ w' = 0 /\ run' = 1
  /\ UNCHANGED <<file, dest, tmp, faulted, reported>>

Contents == {"absent", "old", "partial", "complete"}
MayWrite == ow \/ file = "absent"

\* gen_file: an existing target is left alone unless overwrite is given
Skip ==
  /\ pc = "started" /\ ~MayWrite
  /\ pc' = "skipped"
  /\ UNCHANGED <<file, dest, pdest, tmp, faulted, reported, ow, pre, n, w, run>>

\* writing straight into the target goes through a link into the file behind it
Through(level) == IF dest = "none" THEN "none" ELSE level

\* the output is opened.  In the documented protocol nothing the run writes
\* is visible under the target's name before the close (`tmp` stands for
\* wherever the chunks are kept meanwhile); which path the implementation
\* opens (onTarget) is not prescribed -- what the directory shows afterwards
\* is (Observe).  The deviation opens, and thereby truncates, the target itself.
\* After a failed call the run may open an output again (a retry or a fallback).
Open(onTarget) ==
  /\ pc \in {"started", "broken"} /\ MayWrite
  /\ Truncates => onTarget
  /\ pc' = "open" /\ w' = 0
  /\ IF Truncates THEN file' = "partial" /\ tmp' = tmp /\ dest' = Through("partial")
                  ELSE file' = file /\ tmp' = "partial" /\ dest' = dest
  /\ UNCHANGED <<pdest, faulted, reported, ow, pre, n, run>>

Level(k) == IF k = n THEN "complete" ELSE "partial"

Write ==
  /\ pc = "open" /\ w < n
  /\ w' = w + 1
  /\ IF Truncates THEN file' = Level(w + 1) /\ tmp' = tmp /\ dest' = Through(Level(w + 1))
                  ELSE tmp' = Level(w + 1) /\ file' = file /\ dest' = dest
  /\ UNCHANGED <<pdest, pc, faulted, reported, ow, pre, n, run>>

Flush == pc = "open" /\ UNCHANGED vars

\* a successful close commits the temporary as the target; if the target is a link the
\* commit either replaces the link (the file behind it is untouched) or goes through it
Close ==
  /\ pc = "open" /\ w = n
  /\ pc' = "done" /\ file' = "complete" /\ tmp' = "none"
  /\ dest' \in (IF dest = "none" THEN {"none"} ELSE IF Truncates THEN {"complete"} ELSE {dest, "complete"})
  /\ UNCHANGED <<pdest, faulted, reported, ow, pre, n, w, run>>

Discard == IF "NoCleanup" \in Dev THEN tmp ELSE "none"

\* An I/O call fails -- with whatever kind of failure.  The failing call has no effect.
\* A failed open leaves the run without an output; a failed write, flush or close breaks
\* the output being written (also the closing of a broken output may fail).
Fault(kind) ==
  /\ kind \in FailureKinds
  /\ \/ pc = "started" /\ MayWrite /\ pc' = "started"
     \/ pc \in {"open", "broken"} /\ pc' = "broken"
  /\ faulted' = TRUE
  /\ UNCHANGED <<file, dest, pdest, tmp, reported, ow, pre, n, w, run>>

\* the broken output is closed and given up: the temporary is discarded, the target stays what it is
Abandon ==
  /\ pc = "broken"
  /\ pc' = "started" /\ tmp' = Discard /\ w' = 0
  /\ UNCHANGED <<file, dest, pdest, faulted, reported, ow, pre, n, run>>

\* the run returns: normally after it finished or skipped; with the failure only after a
\* call failed and no output is being written any more (whatever is left of it is discarded)
End(raised) ==
  /\ ~reported
  /\ IF raised THEN /\ pc \in {"started", "broken"} /\ faulted
                     /\ pc' = "crashed" /\ tmp' = Discard
                ELSE /\ pc \in {"done", "skipped"}
                     /\ pc' = pc /\ tmp' = tmp
  /\ reported' = TRUE
  /\ UNCHANGED <<file, dest, pdest, faulted, ow, pre, n, w, run>>

\* what a look at the output directory shows after the run
Observe(cls, others, dcls) ==
  /\ reported
  /\ cls = file
  /\ dcls = dest
  /\ others = (IF tmp = "none" THEN 0 ELSE 1)
  /\ UNCHANGED vars

\* a later run of the same generator on the same input, without --overwrite
Rerun ==
  /\ reported /\ run = 1
  /\ pc' = "started" /\ ow' = FALSE /\ pre' = file /\ pdest' = dest /\ w' = 0 /\ run' = 2 /\ reported' = FALSE
  /\ faulted' = FALSE
  /\ UNCHANGED <<file, dest, tmp, n>>

Next ==
  \/ \E o \in BOOLEAN, k \in 1..MaxN : Start(o, k)
  \/ Skip
  \/ \E t \in BOOLEAN : Open(t)
  \/ Write
  \/ Flush
  \/ Close
  \/ \E k \in FailureKinds : Fault(k)
  \/ Abandon
  \/ \E r \in BOOLEAN : End(r)
  \/ \E cls \in Contents, k \in 0..1, d \in Contents \cup {"none"} : Observe(cls, k, d)
  \/ Rerun

Spec == Init /\ [][Next]_vars

----------------------------------------------------------------------------
\* Properties (C31)

TypeOK ==
  /\ file \in Contents /\ dest \in Contents \cup {"none"} /\ pdest \in Contents \cup {"none"}
  /\ tmp \in {"none", "partial", "complete"}
  /\ pc \in {"idle", "started", "open", "broken", "done", "skipped", "crashed"} /\ faulted \in BOOLEAN
  /\ reported \in BOOLEAN /\ ow \in BOOLEAN /\ pre \in Contents
  /\ n \in 0..MaxN /\ w \in 0..n /\ run \in 0..2

AtRest == pc \in {"idle", "done", "skipped", "crashed"}

\* all-or-nothing: after a failure the target is absent or holds the previous complete content
AllOrNothing == pc = "crashed" => (file = pre /\ file # "partial" /\ dest = pdest)

\* no partially written file is left behind, under whatever name
NothingPartialLeft == AtRest => (file # "partial" /\ tmp = "none" /\ dest # "partial")

\* a run never skips a truncated file as already generated
NoSkipOfPartial == pc = "skipped" => file \in {"old", "complete"}

\* a run that finished produced the complete output
DoneIsComplete == pc = "done" => file = "complete"

\* an existing output is only replaced when overwrite is given, and skipping changes nothing
OverwriteRespected ==
  [][/\ (pc = "started" /\ pc' = "open") => (ow \/ file = "absent")
     /\ (pc' = "skipped" /\ pc # "skipped") => (file' = file /\ ~ow /\ file # "absent")]_vars

\* the later run repairs what an earlier failure left: after run 2 finished or skipped the target is complete or old
RerunEndsWhole == (run = 2 /\ pc \in {"done", "skipped"}) => file \in {"old", "complete"}
=============================================================================
