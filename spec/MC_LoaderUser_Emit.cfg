SPECIFICATION Spec
CONSTANTS
  Scenarios <- MCScenarios
  Dev <- MCDev
INVARIANT EmitScenario
INVARIANT EmitSummary
CHECK_DEADLOCK FALSE
