------------------------ MODULE TraceLoaderResolve ------------------------
(* I->S: the scope-provider calls logged during real loads, validated       *)
(* against LoaderResolve.  One trace per load:                              *)
(*   [sc, events: Seq of [m, r, attempt, ans], kind, names, attrs]           *)
(* (names and attrs hold targets, as an observer of the loaded model sees)   *)
(* Every logged call must be the TryRef step the module allows next (models  *)
(* in repository order, references in textual order, a postponed reference   *)
(* retried in the next round, the answer the scenario's environment gives),  *)
(* the loader's own steps are taken silently in between, and after the last  *)
(* call the module must reach Idle without a further call, with the logged   *)
(* outcome.  Many traces per run: `tid` is chosen in TraceInit, `l` counts   *)
(* consumed events; register tid keeps the furthest point reached, Len + 1   *)
(* when the trace was accepted completely.                                   *)
EXTENDS LoaderResolve, IOUtils

Traces   == JsonDeserialize(IOEnv.VT_TRACES)
TDev     == IF IOEnv.VT_DEV = "" THEN {} ELSE {IOEnv.VT_DEV}
AttrMode == IOEnv.VT_ATTRS          \* "seq": attribute contents compared as sequences, "set": as sets

ScOf(j) == [files |-> j.files, sched |-> j.sched,
            deps |-> [i \in 1..Len(j.deps) |-> Range(j.deps[i])],
            never |-> Range(j.never), unknown |-> Range(j.unknown), tgt |-> j.tgt,
            builtin |-> Range(j.builtin), mode |-> j.mode]

TNone == <<>>          \* no enumerated scenarios: the scenario comes with each trace

VARIABLES tid, l
tvars == <<vars, tid, l>>

ASSUME \A t \in 1..Len(Traces) : TLCSet(t, 0)
ASSUME \A t \in 1..Len(Traces) : WellFormed(ScOf(Traces[t].sc))

TraceInit == /\ tid \in 1..Len(Traces) /\ l = 0
             /\ InitWith(ScOf(Traces[tid].sc))

AttrsMatch(T) ==
  /\ Len(T.attrs) = Len(attrs)
  /\ \A m \in Models :
       /\ Len(T.attrs[m]) = Len(attrs[m])
       /\ \A k \in Stmts(m) :
            IF AttrMode = "seq" THEN T.attrs[m][k] = AttrTargets[m][k]
            ELSE /\ Range(T.attrs[m][k]) = Range(AttrTargets[m][k])
                 /\ Len(T.attrs[m][k]) = Len(attrs[m][k])

Accepting ==
  LET T == Traces[tid] IN
  /\ l = Len(T.events) /\ Idle
  /\ outcome.kind = T.kind
  \* the error names the targets of exactly the delayed references (as a multiset)
  /\ Len(T.names) = Len(outcome.names)
  /\ \A t \in AllRefs : Cardinality({i \in DOMAIN T.names : T.names[i] = t})
                         = Cardinality({i \in DOMAIN NameTargets : NameTargets[i] = t})
  /\ (T.kind = "ok" => AttrsMatch(T))

TraceNext ==
  \/ /\ Internal /\ UNCHANGED <<tid, l>>
  \/ /\ l < Len(Traces[tid].events)
     /\ LET e == Traces[tid].events[l + 1] IN
        /\ e.m \in Models /\ e.r \in AllRefs
        /\ TryRef(e.m, e.r)
        /\ op'.attempt = e.attempt /\ op'.ans = e.ans
     /\ l' = l + 1 /\ tid' = tid

TraceSpec == TraceInit /\ [][TraceNext]_tvars

Progress == LET p == IF Accepting THEN l + 1 ELSE l
            IN TLCSet(tid, IF p > TLCGet(tid) THEN p ELSE TLCGet(tid))

Report == \A t \in 1..Len(Traces) :
            PrintT("TRACE|" \o ToJson([tid |-> t, reached |-> TLCGet(t), len |-> Len(Traces[t].events)]))
=============================================================================
