SPECIFICATION FairSpec
CONSTANTS
  ScenarioSets <- EnvScenarioSets
  Order <- EnvOrder
  Dev <- EnvDev
INVARIANT TypeOK
INVARIANT C08_Partial
INVARIANT C08_ListOrder
INVARIANT AttrsComplete
INVARIANT OncePerRound
INVARIANT RoundBound
INVARIANT ErrorNamesUnresolved
INVARIANT C09_Verdict
INVARIANT C09_Sound
PROPERTY C09_Terminates
CHECK_DEADLOCK FALSE
