--------------------------- MODULE MetaGrammarGen ---------------------------
(***************************************************************************)
(* Bounded generator for MetaGrammar: the production data read as a         *)
(* context-free grammar.  A state is a leftmost sentential form (done =     *)
(* tokens produced, todo = expressions still to derive) and a budget n;     *)
(* every non-default choice (taking an optional, one more iteration, a      *)
(* costly alternative or token) is paid from n.  TLC's breadth-first search *)
(* therefore enumerates every token sequence derivable from a seed within   *)
(* its budget; finished forms (todo = <<>>) are printed and are the states  *)
(* on which the invariants speak.                                           *)
(*                                                                          *)
(* Seeds: the whole grammar with a small budget, in which links, repeat     *)
(* modifiers and rule parameters appear in their default form only; and one *)
(* canonical host text per such phrase in which the phrase is derived with  *)
(* its own, larger budget.                                                  *)
(***************************************************************************)
EXTENDS MetaGrammar, Json

CONSTANTS Seeds,      \* Seq of [todo, n, zr, dev]: start form, budget, phrases kept at their default, grammar variant
          Dev,        \* deviation clauses switched on for the invariants (documented semantics: {})
          Emit        \* BOOLEAN: print finished forms

VARIABLES sd, done, todo, n
vars == <<sd, done, todo, n>>

\* representative tokens of a terminal class, with their cost
Rep(tk, c) == [t |-> tk, c |-> c]
Reps(c) ==
  CASE c = "RULENAME"   -> <<Rep("A", 0), Rep("B", 1), Rep("1b", 1), Rep("__asgn_r", 1)>>
    [] c = "ATTR"       -> <<Rep("x", 0), Rep("y", 1)>>
    [] c = "RULEREF"    -> <<Rep("ID", 0), Rep("A", 1), Rep("B", 1), Rep("INTEGER", 1), Rep("A.B", 1), Rep("ID.x", 1)>>
    [] c = "PARAM"      -> <<Rep("skipws", 0), Rep("noskipws", 1), Rep("ws", 1), Rep("foo", 1),
                              Rep("nows", 1), Rep("split", 1), Rep("nosplit", 1)>>
    [] c = "ALIAS"      -> <<Rep("c", 0)>>
    [] c = "MATCHRULE"  -> <<Rep("ID", 0), Rep("A", 1)>>
    [] c = "QNAME"      -> <<Rep("A", 0), Rep("INT", 1), Rep("OBJECT", 1), Rep("A.B", 1), Rep("INT.y.z", 1)>>
    [] c = "IMPORTNAME" -> <<Rep("m", 0), Rep("m.n", 1)>>
    [] c = "LANGNAME"   -> <<Rep("l", 0), Rep("a-b", 1)>>
    [] c = "RID"        -> <<Rep("a", 0), Rep("b", 1)>>
    [] c = "ALIASREF"   -> <<Rep("ID", 0), Rep("A", 1), Rep("B", 1), Rep("C", 1)>>
    [] c = "PTYPE"      -> <<Rep("A", 0)>>
    [] c = "STR"        -> <<Rep("'a'", 0), Rep("\"b\"", 1), Rep("''", 1), Rep("'\\xzz'", 1)>>
    [] c = "PVAL"       -> <<Rep("'a'", 0)>>
    [] c = "FIXED"      -> <<Rep("'n'", 0)>>
    [] c = "RE"         -> <<Rep("/b/", 0), Rep("/x*/", 1), Rep("/(/", 1)>>
    [] c = "FLAGS"      -> <<Rep("+m:", 0), Rep("+p:", 0), Rep("+mp:", 0), Rep("+pm:", 0)>>
    [] c = "DOTS"       -> <<Rep("..", 0), Rep(".", 1)>>

GramOf(d) == IF d = {} THEN GramLang ELSE Gram(d)
TheSeeds == Seeds        \* evaluated once (a cfg substitution is re-evaluated at every use)

\* the default (cost 0) phrase of an expression
RECURSIVE Def(_, _), DefSeq(_, _, _)
Def(G, e) ==
  CASE e.op = "tok"  -> <<e.v>>
    [] e.op = "cls"  -> <<Reps(e.c)[1].t>>
    [] e.op = "nt"   -> Def(G, G[e.n])
    [] e.op = "seq"  -> DefSeq(G, e.xs, 1)
    [] e.op = "alt"  -> Def(G, e.xs[CHOOSE i \in 1..Len(e.xs) : e.cs[i] = 0 /\ \A j \in 1..(i - 1) : e.cs[j] # 0])
    [] e.op = "opt"  -> <<>>
    [] e.op = "star" -> <<>>
    [] e.op = "plus" -> Def(G, e.x)
DefSeq(G, xs, i) == IF i > Len(xs) THEN <<>> ELSE Def(G, xs[i]) \o DefSeq(G, xs, i + 1)

\* deterministic expansion of the head of the form until it is a choice point
Choice(e) == e.op \in {"alt", "opt", "star"} \/ (e.op = "cls" /\ Len(Reps(e.c)) > 1)
RECURSIVE Run(_, _, _, _)
Run(G, zr, d, td) ==
  IF td = <<>> THEN [done |-> d, todo |-> td]
  ELSE LET e == Head(td)  rest == Tail(td) IN
       IF Choice(e) THEN [done |-> d, todo |-> td]
       ELSE CASE e.op = "tok"  -> Run(G, zr, Append(d, e.v), rest)
              [] e.op = "cls"  -> Run(G, zr, Append(d, Reps(e.c)[1].t), rest)
              [] e.op = "nt"   -> IF e.n \in zr THEN Run(G, zr, d \o Def(G, G[e.n]), rest)
                                  ELSE Run(G, zr, d, <<G[e.n]>> \o rest)
              [] e.op = "seq"  -> Run(G, zr, d, e.xs \o rest)
              [] e.op = "plus" -> Run(G, zr, d, <<e.x, Sr(e.x, e.c)>> \o rest)

Init ==
  /\ sd \in 1..Len(TheSeeds)
  /\ LET s == TheSeeds[sd]  r == Run(GramOf(s.dev), s.zr, <<>>, s.todo) IN
     /\ done = r.done /\ todo = r.todo /\ n = s.n

Go(d, td, m) ==
  LET s == TheSeeds[sd]  r == Run(GramOf(s.dev), s.zr, d, td) IN
  /\ done' = r.done /\ todo' = r.todo /\ n' = m /\ sd' = sd

Next ==
  /\ todo # <<>>
  /\ LET e == Head(todo)  rest == Tail(todo) IN
     CASE e.op = "alt"  -> \E i \in 1..Len(e.xs) : e.cs[i] <= n /\ Go(done, <<e.xs[i]>> \o rest, n - e.cs[i])
       [] e.op = "opt"  -> \/ Go(done, rest, n)
                           \/ e.c <= n /\ Go(done, <<e.x>> \o rest, n - e.c)
       [] e.op = "star" -> \/ Go(done, rest, n)
                           \/ (e.c <= n /\ e.c > 0) /\ Go(done, <<e.x, e>> \o rest, n - e.c)
       [] e.op = "cls"  -> \E i \in 1..Len(Reps(e.c)) :
                              Reps(e.c)[i].c <= n /\ Go(Append(done, Reps(e.c)[i].t), rest, n - Reps(e.c)[i].c)

Spec == Init /\ [][Next]_vars

Final == todo = <<>>
SeedDev == TheSeeds[sd].dev

----------------------------------------------------------------------------
\* (M) what TLC checks on every finished form

DelAt(s, k) == [i \in 1..(Len(s) - 1) |-> IF i < k THEN s[i] ELSE s[i + 1]]

\* the two readings of the production data agree: what the generator derives, the recogniser accepts
GenInL == Final => InL(done, SeedDev)

\* every text of the documented language ends with the `;` of its last rule: cutting it leaves the language
LastTokenNeeded == (Final /\ SeedDev = {} /\ Len(done) > 0) => ~InL(DelAt(done, Len(done)), {})

\* C24 in the module: the self-hosted grammar (the productions under Dev) accepts exactly what
\* the compiler's grammar accepts -- on the finished form and on each of its one-token deletions
SameOn(s) == InL(s, {}) <=> InL(s, Dev)
TxAgrees == (Final /\ Dev \cap TxDevs # {}) => /\ SameOn(done)
                                               /\ \A k \in 1..Len(done) : SameOn(DelAt(done, k))

\* the narrowing clauses only remove texts, the widening one only adds (checked on the one-token deletions too)
Narrowing == TxDevs \ {"TxNoRulesOk", "TxBuiltinPrefix"}
DevDirection ==
  Final => \A s \in {done} \cup {DelAt(done, k) : k \in 1..Len(done)} :
             LET l == InL(s, {}) IN
             /\ ~l => \A d \in Narrowing : ~InL(s, {d})
             /\ l => InL(s, {"TxNoRulesOk"})

\* C23 in the module: nothing but a TextXError (or the documented import assertion) comes out,
\* and the assertion only where the documented class says "import"
NoLeak == Final => LET f == Facts(done) IN
                   /\ AllowedF(f, Dev) \subseteq {"ok", "textx", "AssertionError"}
                   /\ ("AssertionError" \in AllowedF(f, Dev)) <=> (ClassF(f) = "import")
                   /\ ClassF(f) \in {"ok", "syntax", "semantic", "textx", "import", "unknown"}

\* per-production coverage of the generated corpus, accumulated in TLC register 1
ASSUME TLCSet(1, {})
Collect == Final => TLCSet(1, TLCGet(1) \cup Coverage(done))
AllProductions == NonTerminals \cup {"repeat_sign *", "repeat_sign ?", "repeat_sign +", "repeat_sign #",
                                     "syntactic_predicate !", "syntactic_predicate &",
                                     "assignment_op =", "assignment_op *=", "assignment_op +=", "assignment_op ?=",
                                     "obj_ref_sep :", "obj_ref_sep |", "rrel_anchor ^", "rrel_anchor ..", "rrel_anchor ."}
CoverageComplete == /\ PrintT("COVERAGE|" \o ToJson(TLCGet(1)))
                    /\ AllProductions \subseteq TLCGet(1)

EmitFinal == (Final /\ Emit) => PrintT("GEN|" \o ToJson([seed |-> sd, toks |-> done]))
=============================================================================
