--------------------------- MODULE MC_LoaderProc ---------------------------
(* Bounded scenario universes for LoaderProc over the carrier grammar of    *)
(* vt/drive/procs.py (DESIGN.md Appendix D with the C13/C34 variants):      *)
(*                                                                          *)
(*   Model:   ('model' name=ID)? imports*=Import ('first' first=Def)?      *)
(*            ('root' root=Pkg)? elems*=Elem;                               *)
(*   Import:  'import' importURI=STRING;                                    *)
(*   Elem:    Pkg | Grp | Box | Slot | Def | Use | UseList;                 *)
(*   Pkg:     'pkg' name=ID '{' ('head' head=DefB)? ('defs' defs+=Def ';')? *)
(*            elems*=Elem (note=Note)? '}';                                 *)
(*   Note:    'note' name=ID;            reachable through Pkg.note only     *)
(*   Grp:     items+=Def['&'] ';';       starts where its first item starts *)
(*   Box:     inner=Cell;                has exactly the span of its content *)
(*   Cell:    'cell' name=ID;                                               *)
(*   Slot:    'slot' val=Value;                                             *)
(*   Value:   Tag | Cell;                an abstract rule with a match-rule  *)
(*   Tag:     /t[0-9]+/;                 alternative: val may be a plain value *)
(*   Bag:     'bag' vals+=Value[','];    a list typed with that abstract rule  *)
(*   Def:     DefA | DefB;                                                  *)
(*   DefA:    'defa' name=ID ('extends' extends+=[Def:QName][','])?;        *)
(*   DefB:    'defb' name=ID;                                               *)
(*   Use:     'use' ref=[Def:QName];                                        *)
(*   UseList: 'refs' refs+=[Def:QName][','];                                *)
(*                                                                          *)
(* A shape is the forest without positions; Build lays it out abstractly     *)
(* (single gaps, two-character names) so that (M) is self-contained.  The    *)
(* conformance passes re-render the emitted shapes as real text and take the *)
(* positions from that text.                                                 *)
EXTENDS LoaderProc, LoaderProcCarrier, IOUtils, Json, SequencesExt

CONSTANTS Family,     \* "c13" | "c33" | "c34": which dimension is enumerated
          MaxObjs, MaxFiles, MaxRefs, MaxPostpone

DefKinds == {"DefA", "DefB"}
NrefChoices(kd) ==
  CASE kd = "Use" -> {1} [] kd = "UseList" -> {1, 2} [] kd = "DefA" -> {0, 1} [] OTHER -> {0}

----------------------------------------------------------------------------
\* shapes: Seq of [kind, parent, slot, file, hdr, nref] in textual order
RECURSIVE PathUp(_, _)
PathUp(s, o) == IF o = 0 THEN {} ELSE {o} \cup PathUp(s, s[o].parent)
KidsOfShape(s, p) == {i \in 1..Len(s) : s[i].parent = p}
MaxOf(S) == CHOOSE m \in S : \A x \in S : x <= m
SlotIndex(kd, name) == CHOOSE k \in 1..Len(CarrierMeta[kd]) : CarrierMeta[kd][k].name = name
LastKidSlot(s, p) == IF KidsOfShape(s, p) = {} THEN 0
                     ELSE SlotIndex(s[p].kind, s[MaxOf(KidsOfShape(s, p))].slot)
NumFiles(s) == s[Len(s)].file
SlotOK(s, p, k) ==
  LET lk == LastKidSlot(s, p) sl == CarrierMeta[s[p].kind][k] IN
  /\ IF sl.many THEN k >= lk ELSE k > lk
  /\ sl.decl = "Import" => s[p].file = 1 /\ Cardinality(KidsOfShape(s, p)) < MaxFiles - 1
  \* Model.root and Pkg.note only matter for the processor walk (recursion entered through a
  \* concrete rule, an attribute after the recursive one): the other families leave them out
  /\ sl.name \in {"root", "note"} => Family \in {"c13", "shapes"}
Obj(kd, p, sl, f, h, nr) == [kind |-> kd, parent |-> p, slot |-> sl, file |-> f, hdr |-> h, nref |-> nr]
TotalRefs(s) == LET RECURSIVE Sum(_)
                    Sum(i) == IF i = 0 THEN 0 ELSE s[i].nref + Sum(i - 1)
                IN Sum(Len(s))
\* everything below is built as sequences without duplicates (a TLC set of large
\* records costs a quadratic number of comparisons to build)
Flat(ss) == FoldLeft(LAMBDA a, b : a \o b, <<>>, ss)
Ext(s) ==
  LET f == NumFiles(s)
      left == MaxRefs - TotalRefs(s)
      ps == SetToSeq(PathUp(s, Len(s)))
      \* Bag (a list typed with the mixed abstract rule Value) matters for the processor walk only
      forSlot(p, k) == LET kds == SetToSeq(Allowed(CarrierMeta[s[p].kind][k].decl)
                                           \ (IF Family \in {"c13", "shapes"} THEN {} ELSE {"Bag"})) IN
                       Cat([a \in 1..Len(kds) |->
                              LET nrs == SetToSeq({nr \in NrefChoices(kds[a]) : nr <= left}) IN
                              [b \in 1..Len(nrs) |->
                                 Append(s, Obj(kds[a], p, CarrierMeta[s[p].kind][k].name, f, TRUE, nrs[b]))]])
      forParent(p) == Cat([k \in 1..Len(CarrierMeta[s[p].kind]) |->
                             IF SlotOK(s, p, k) THEN forSlot(p, k) ELSE <<>>])
  IN Cat([i \in 1..Len(ps) |-> forParent(ps[i])])
     \o (IF f < MaxFiles THEN <<Append(s, Obj("Model", 0, "", f + 1, TRUE, 0)),
                                Append(s, Obj("Model", 0, "", f + 1, FALSE, 0))>> ELSE <<>>)
RECURSIVE ShapesOf(_)
ShapesOf(n) == IF n = 1 THEN <<<<Obj("Model", 0, "", 1, TRUE, 0)>>, <<Obj("Model", 0, "", 1, FALSE, 0)>>>>
               ELSE LET prev == ShapesOf(n - 1) IN Flat([i \in 1..Len(prev) |-> Ext(prev[i])])
\* definitions a reference written in file f can name: its own file, and from
\* the main file also the imported ones
Visible(s, f) == {t \in 1..Len(s) : s[t].kind \in DefKinds /\ (s[t].file = f \/ f = 1)}
Complete(s) ==
  /\ \A o \in 1..Len(s) :
       /\ s[o].kind \in {"Box", "Slot"} => Cardinality(KidsOfShape(s, o)) = 1
       /\ s[o].kind \in {"Grp", "Bag"} => KidsOfShape(s, o) # {}
       /\ s[o].kind = "Model" => s[o].hdr \/ KidsOfShape(s, o) # {}
       /\ s[o].nref > 0 => Visible(s, s[o].file) # {}
  /\ NumFiles(s) = 1 + Cardinality({o \in 1..Len(s) : s[o].kind = "Import"})
  /\ TotalRefs(s) <= MaxRefs
RECURSIVE ShapesUpTo(_, _)
\* <<complete shapes with <= n objects, all shape prefixes with exactly n objects>>
ShapesUpTo(n, dummy) ==
  IF n = 1 THEN LET a == ShapesOf(1) IN <<SelectSeq(a, Complete), a>>
  ELSE LET prev == ShapesUpTo(n - 1, dummy)
           a == Flat([i \in 1..Len(prev[2]) |-> Ext(prev[2][i])])
       IN <<prev[1] \o SelectSeq(a, Complete), a>>
Shapes == ShapesUpTo(MaxObjs, 0)[1]

----------------------------------------------------------------------------
\* references of a shape: Seq of [owner, target, parts, sched] in textual order
RefOwners(s) == Cat([o \in 1..Len(s) |-> [j \in 1..s[o].nref |-> o]])
RECURSIVE PkgDepth(_, _)
PkgDepth(s, o) == IF s[o].parent = 0 THEN 0
                  ELSE (IF s[s[o].parent].kind = "Pkg" THEN 1 ELSE 0) + PkgDepth(s, s[o].parent)
MinOf(S) == CHOOSE m \in S : \A x \in S : m <= x
DefaultRefs(s) ==
  LET ow == RefOwners(s) IN
  [i \in 1..Len(ow) |-> [owner |-> ow[i], target |-> MinOf(Visible(s, s[ow[i]].file)), parts |-> 1, sched |-> 0]]
SchedOK(rs) == \A q \in 0..MaxPostpone :
                 (\E i \in 1..Len(rs) : rs[i].sched = q) \/ (\A i \in 1..Len(rs) : rs[i].sched < q)
RefChoices(s, o) ==
  SetToSeq({c \in {[owner |-> o, target |-> t, parts |-> p, sched |-> q] :
                     t \in Visible(s, s[o].file), p \in 1..3, q \in 0..MaxPostpone} :
              c.parts <= 1 + PkgDepth(s, c.target)})
RECURSIVE RefSeqs(_, _, _)
RefSeqs(s, ow, i) ==
  IF i = 0 THEN <<<<>>>>
  ELSE LET prev == RefSeqs(s, ow, i - 1) cs == RefChoices(s, ow[i]) IN
       Flat([a \in 1..Len(prev) |-> [b \in 1..Len(cs) |-> Append(prev[a], cs[b])]])
AllRefs(s) == LET ow == RefOwners(s) IN SelectSeq(RefSeqs(s, ow, Len(ow)), SchedOK)

----------------------------------------------------------------------------
\* abstract layout
RefLen(parts) == 3 * parts - 1
Pre(s, o) == CASE s[o].kind \in {"Grp", "Box"} -> 0
               [] s[o].kind = "Model" -> (IF s[o].hdr THEN 8 ELSE 0)
               [] OTHER -> 7
Suf(s, o) == IF s[o].kind \in {"Pkg", "Grp"} THEN 1 ELSE 0
KidSeq(s, o) == SelectSeq(Ids(Len(s)), LAMBDA c : s[c].parent = o)
RefBase(s, o) == LET RECURSIVE Sum(_)
                     Sum(i) == IF i = 0 THEN 0 ELSE s[i].nref + Sum(i - 1)
                 IN Sum(o - 1)
RECURSIVE SumSeq(_)
SumSeq(q) == IF q = <<>> THEN 0 ELSE Head(q) + SumSeq(Tail(q))
RECURSIVE Width(_, _, _), Segs(_, _, _)
Segs(s, rs, o) ==
  (IF Pre(s, o) > 0 THEN <<Pre(s, o)>> ELSE <<>>)
  \o [i \in 1..Len(KidSeq(s, o)) |-> Width(s, rs, KidSeq(s, o)[i])]
  \o [j \in 1..s[o].nref |-> RefLen(rs[RefBase(s, o) + j].parts)]
  \o (IF Suf(s, o) > 0 THEN <<1>> ELSE <<>>)
Width(s, rs, o) == LET g == Segs(s, rs, o) IN SumSeq(g) + Len(g) - 1
SegStart(s, rs, o, base, idx) == base + SumSeq(SubSeq(Segs(s, rs, o), 1, idx - 1)) + (idx - 1)
RECURSIVE StartOf(_, _, _)
StartOf(s, rs, o) ==
  IF s[o].parent = 0 THEN 0
  ELSE LET p == s[o].parent IN
       SegStart(s, rs, p, StartOf(s, rs, p), (IF Pre(s, p) > 0 THEN 1 ELSE 0) + IndexIn(KidSeq(s, p), o))
RefStart(s, rs, o, j) ==
  SegStart(s, rs, o, StartOf(s, rs, o), (IF Pre(s, o) > 0 THEN 1 ELSE 0) + Len(KidSeq(s, o)) + j)

NoFault == [on |-> FALSE, proc |-> "obj", obj |-> 0, rule |-> "", exc |-> "txnoloc", wrap |-> FALSE,
            hline |-> FALSE, hcol |-> FALSE, hnchar |-> FALSE, hfile |-> FALSE,
            sline |-> 0, scol |-> 0, snchar |-> 0, sfile |-> "", mfile |-> 1, mline |-> 0, mcol |-> 0]

Build(s, rs, main, procs, repl, fault) ==
  [objs |-> [o \in 1..Len(s) |->
               [kind |-> s[o].kind, parent |-> s[o].parent, slot |-> s[o].slot, file |-> s[o].file,
                hdr |-> s[o].hdr, nref |-> s[o].nref,
                start |-> StartOf(s, rs, o), end |-> StartOf(s, rs, o) + Width(s, rs, o),
                line |-> 1, col |-> StartOf(s, rs, o) + 1, namelen |-> 2]],
   refs |-> [i \in 1..Len(rs) |->
               [owner |-> rs[i].owner, target |-> rs[i].target, parts |-> rs[i].parts, sched |-> rs[i].sched,
                start |-> RefStart(s, rs, rs[i].owner, i - RefBase(s, rs[i].owner)),
                len |-> RefLen(rs[i].parts)]],
   files |-> [f \in 1..NumFiles(s) |-> IF f = 1 THEN main ELSE "imp" \o ToString(f) \o ".m"],
   lang |-> [f \in 1..NumFiles(s) |-> 1],
   procs |-> procs, repl |-> repl, replk |-> [i \in 1..Len(repl) |-> "str"],
   procs2 |-> <<>>, repl2 |-> <<>>, replk2 |-> <<>>, fault |-> fault]

----------------------------------------------------------------------------
\* processor tables
RelevantRules(s) == UNION {{s[o].kind, IF s[o].parent = 0 THEN s[o].kind
                                       ELSE CarrierMeta[s[s[o].parent].kind][SlotIndex(s[s[o].parent].kind, s[o].slot)].decl}
                             : o \in 1..Len(s)} \ {"Plain"}
FullTables == atoi(IOEnv.VT_FULLTABLES)
\* every (processors, replacing processors) table over the rules that matter for the shape;
\* for shapes with more than FullTables objects: every replacement subset with all rules
\* registered, every table that leaves out one rule, registers one rule only, or none -- for each
\* object that is every combination of own/declared rule registered and, with both
\* registered, of own/declared processor replacing
Tables(s) ==
  LET rel == RelevantRules(s) IN
  SetToSeq(IF Len(s) <= FullTables
           THEN {<<P, R>> \in (SUBSET rel) \X (SUBSET rel) : R \subseteq P}
           ELSE {<<rel, R>> : R \in SUBSET rel} \cup {<<rel \ {r}, {}>> : r \in rel}
                \cup {<<{r}, {}>> : r \in rel} \cup {<<{}, {}>>})

C13Scenarios(u) ==
  LET S == Shapes IN
  Flat([i \in 1..Len(S) |->
          LET s == S[i]
              base == Build(s, DefaultRefs(s), "main.m", <<>>, <<>>, NoFault)
              ts == Tables(s)
              rel == SeqOfSet(RelevantRules(s))
              strs == [q \in 1..Len(rel) |-> "str"]
              two == [base EXCEPT !.lang = <<1, 2>>]
          IN [j \in 1..Len(ts) |->
                LET R == SeqOfSet(ts[j][2]) IN
                [base EXCEPT !.procs = SeqOfSet(ts[j][1]), !.repl = R,
                             \* replacement values: identifying strings, and a falsy value now and then
                             !.replk = [q \in 1..Len(R) |-> IF (q + j) % 3 = 0 THEN "zero" ELSE "str"]]]
             \* the imported model belongs to a second language with registrations of its own
             \o (IF NumFiles(s) = 2
                 THEN <<[two EXCEPT !.procs2 = rel],
                        [two EXCEPT !.procs = rel],
                        [two EXCEPT !.procs = rel, !.procs2 = rel, !.repl2 = rel, !.replk2 = strs]>>
                 ELSE <<>>)])
\* shapes only (the conformance pass multiplies them with processor tables itself)
ShapeScenarios(u) == LET S == Shapes IN
                     [i \in 1..Len(S) |-> Build(S[i], DefaultRefs(S[i]), "main.m", <<>>, <<>>, NoFault)]

\* C33: every processor call and every named object's name match as the failing
\* site, every row of the decision table
\* which fields the raised error carries (not none of them), with ordinary or falsy values
SupChoices == {<<hl, hc, hn, hf, falsy>> \in BOOLEAN \X BOOLEAN \X BOOLEAN \X BOOLEAN \X BOOLEAN :
                 hl \/ hc \/ hn \/ hf}
Excs == SetToSeq({[exc |-> "txnoloc", sup |-> <<FALSE, FALSE, FALSE, FALSE, FALSE>>],
                  [exc |-> "other", sup |-> <<FALSE, FALSE, FALSE, FALSE, FALSE>>]}
                 \cup {[exc |-> "txsome", sup |-> u] : u \in SupChoices})
C33Scenarios(u) ==
  LET S == Shapes IN
  Flat([i \in 1..Len(S) |->
    LET s == S[i]
        rs == DefaultRefs(s)
        procs == SeqOfSet(RelevantRules(s))
        base(main) == Build(s, rs, main, procs, <<>>, NoFault)
        b0 == base("main.m")
        objSites == {<<"obj", x[1], x[2]>> : x \in {x \in (1..Len(s)) \X RelevantRules(s) : ExpectedCount(b0, x[1], x[2]) = 1}}
        matchSites == {<<"match", o, "ID">> : o \in {o \in 1..Len(s) : s[o].kind \in {"Pkg", "Cell", "DefA", "DefB", "Note"}}}
        sites == SetToSeq(objSites \cup matchSites)
        flt(x, e, w) ==
          [on |-> TRUE, proc |-> x[1], obj |-> x[2], rule |-> x[3], exc |-> e.exc, wrap |-> w,
           hline |-> e.sup[1], hcol |-> e.sup[2], hnchar |-> e.sup[3], hfile |-> e.sup[4],
           sline |-> IF e.sup[5] THEN 0 ELSE 77, scol |-> IF e.sup[5] THEN 0 ELSE 88,
           snchar |-> IF e.sup[5] THEN 0 ELSE 99, sfile |-> IF e.sup[5] THEN "" ELSE "supplied.x",
           mfile |-> s[x[2]].file, mline |-> 1, mcol |-> b0.objs[x[2]].start + 6]
        mains == IF NumFiles(s) = 1 THEN <<"", "main.m">> ELSE <<"main.m">>
    IN Flat([m \in 1..Len(mains) |->
         LET b == base(mains[m]) IN
         Flat([a \in 1..Len(sites) |->
           Flat([c \in 1..Len(Excs) |->
             <<[b EXCEPT !.fault = flt(sites[a], Excs[c], FALSE)],
               [b EXCEPT !.fault = flt(sites[a], Excs[c], TRUE)]>>])])])])

C34Scenarios(u) ==
  LET S == Shapes IN
  Flat([i \in 1..Len(S) |->
          LET s == S[i] rss == AllRefs(s) IN
          [j \in 1..Len(rss) |-> Build(s, rss[j], "main.m", <<>>, <<>>, NoFault)]])

\* each family is a constant definition (evaluated once by TLC); only the chosen one is built
C13All == IF Family = "c13" THEN C13Scenarios(0) ELSE <<>>
C33All == IF Family = "c33" THEN C33Scenarios(0) ELSE <<>>
C34All == IF Family = "c34" THEN C34Scenarios(0) ELSE <<>>
ShapesAll == IF Family = "shapes" THEN ShapeScenarios(0) ELSE <<>>
MCScenarios == CASE Family = "c13" -> C13All
                 [] Family = "c33" -> C33All
                 [] Family = "c34" -> C34All
                 [] Family = "shapes" -> ShapesAll

NoDev == {}
EnvDev == IF IOEnv.VT_DEV = "" THEN {} ELSE {IOEnv.VT_DEV}
EnvFamily == IOEnv.VT_FAMILY
EnvMaxObjs == atoi(IOEnv.VT_MAXOBJS)
EnvMaxFiles == atoi(IOEnv.VT_MAXFILES)
EnvMaxRefs == atoi(IOEnv.VT_MAXREFS)
EnvMaxPostpone == atoi(IOEnv.VT_MAXPOSTPONE)

----------------------------------------------------------------------------
\* emission of the scenarios for replay against the implementation: the
\* initial states are exactly the scenarios
EmitSpec == Init /\ [][FALSE]_vars
EmitScenario == PrintT("SCEN|" \o ToJson(sc))
\* the same from a model-checking run: TLC evaluates state constraints on the initial
\* states before the workers start, so the lines come out one by one
EmitInit == (pc = "construct" /\ IOEnv.VT_EMIT = "1") => PrintT("SCEN|" \o ToJson(sc))
=============================================================================
