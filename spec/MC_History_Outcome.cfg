SPECIFICATION Spec
CONSTANTS
  Pool <- ThePool
CONSTRAINT Bound
INVARIANT OutcomeIsFresh

CHECK_DEADLOCK FALSE
