SPECIFICATION Spec
CONSTANTS
  Cfgs <- PCfgs
  Flag <- PFlag
  Inputs <- PInputs
  WInputs <- PWInputs
  Fresh <- PFresh
  FreshMM <- PFreshMM
  Alt <- PAlt
  Nested <- PNested
  Defs <- PDefs
  Unres <- PUnres
  NImp <- PNImp
  Slots <- PSlots
  MaxOps <- PMaxOps
  Dev <- PDev
  Break <- PBreak
CONSTRAINT Bound
INVARIANT OutcomeIsFresh

CHECK_DEADLOCK FALSE
