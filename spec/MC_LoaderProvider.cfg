SPECIFICATION PSpec
CONSTANTS
  Dev <- MCDev
INVARIANT Emit
CHECK_DEADLOCK FALSE
