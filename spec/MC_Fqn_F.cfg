SPECIFICATION Spec
CONSTANTS
  Dev = {"FqnFalsyTargetSkipped"}
  MaxCross = 0
  GrpSlots = {}
  TClasses = {"Pkg"}
INVARIANT C10
CHECK_DEADLOCK FALSE
