SPECIFICATION ESpec
CONSTANTS
  Dev <- NoDev
CHECK_DEADLOCK FALSE
