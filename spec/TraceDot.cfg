SPECIFICATION TSpec
ACTION_CONSTRAINT Emit
CHECK_DEADLOCK FALSE
