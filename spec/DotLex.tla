------------------------------- MODULE DotLex -------------------------------
(***************************************************************************)
(* A character-level pushdown recogniser of the Graphviz DOT language as   *)
(* far as textx/export.py uses it (property C29), and of the record-label  *)
(* sub-language that Graphviz applies to the labels of `shape=record`      *)
(* nodes.                                                                  *)
(*                                                                         *)
(* The exported text is a sequence of character codes; Step(cfg, c)        *)
(* consumes one character.  A text is accepted iff Accepting(cfg) holds    *)
(* after its last character.  cfg also counts node statements (with and    *)
(* without attribute list) and edge statements.                            *)
(*                                                                         *)
(* Lexical level (Graphviz scan.l): identifiers, numerals, double-quoted   *)
(* strings in which only \" and \\ are pairs, HTML strings <...> with      *)
(* nested angle brackets (closed tags, well-formed entities), // and block *)
(* comments.                                                               *)
(* Syntactic level (Graphviz grammar.y): [strict] (graph|digraph) [ID]     *)
(* { stmt_list }, node / edge / attr statements, ID = ID, subgraphs,       *)
(* attribute lists [k=v (,|;)? ...], ports.                                *)
(* Record labels (Graphviz shapes.c, parse_reclbl): fields separated by |, *)
(* nesting with { }, ports <...>, a backslash makes the next character     *)
(* plain text.                                                             *)
(***************************************************************************)
EXTENDS Naturals, Sequences, FiniteSets, TLC

\* ---- characters
DQ == 34      BS == 92      LT == 60      GT == 62      LB == 123     RB == 125
BAR == 124    LSQ == 91     RSQ == 93     EQ == 61      SEMI == 59    COMMA == 44
MINUS == 45   SLASH == 47   STAR == 42    COLON == 58   DOT == 46     SP == 32
NL == 10      PLUS == 43

IsWS(c)     == c \in {32, 9, 10, 11, 12, 13}
IsDigit(c)  == c \in 48..57
IsLetter(c) == c \in 65..90 \/ c \in 97..122 \/ c = 95 \/ c >= 128
Lower(c)    == IF c \in 65..90 THEN c + 32 ELSE c

\* keywords and the attribute names / values the recogniser looks at (lower case)
KwStrict   == <<115, 116, 114, 105, 99, 116>>
KwGraph    == <<103, 114, 97, 112, 104>>
KwDigraph  == <<100, 105, 103, 114, 97, 112, 104>>
KwNode     == <<110, 111, 100, 101>>
KwEdge     == <<101, 100, 103, 101>>
KwSubgraph == <<115, 117, 98, 103, 114, 97, 112, 104>>
TxLabel    == <<108, 97, 98, 101, 108>>
TxShape    == <<115, 104, 97, 112, 101>>
TxRecord   == <<114, 101, 99, 111, 114, 100>>
TxMrecord  == <<109, 114, 101, 99, 111, 114, 100>>
MaxBuf == 10

----------------------------------------------------------------------------
\* Record labels.  ms: stack of mode sets (last = innermost level); esc: the
\* previous character was an unescaped backslash; nbar: see BAR; open: the previous character
\* was a `{` that opened a level; fin: the outermost level was closed by `}`
\* (Graphviz ignores the rest); bad: "bad label format".

RecInit == [ms |-> << {} >>, esc |-> FALSE, open |-> FALSE, fin |-> FALSE, bad |-> FALSE, nbar |-> 0, h |-> 0]

RTop(r) == r.ms[Len(r.ms)]
RSet(r, m) == [r EXCEPT !.ms[Len(r.ms)] = m, !.open = FALSE, !.esc = FALSE]
RBad(r) == [r EXCEPT !.bad = TRUE]

\* an ordinary character of a field or of a port
RText(r, c) ==
  LET m == RTop(r) IN
  IF "HASTABLE" \in m /\ c # SP THEN RBad(r)
  ELSE IF m \cap {"INTEXT", "INPORT"} = {} /\ c # SP THEN RSet(r, m \cup {"INTEXT", "HASTEXT"})
  ELSE RSet(r, m)

RecFeed(r, c) ==
  IF r.bad \/ r.fin THEN r
  ELSE IF r.esc THEN RText(r, c)
  ELSE IF c < 32 THEN [r EXCEPT !.open = FALSE]          \* control characters are skipped
  ELSE LET m == RTop(r) IN
    CASE c = BS  -> [r EXCEPT !.esc = TRUE, !.open = FALSE]
      [] c = LT  -> IF m \cap {"HASTABLE", "HASPORT"} # {} THEN RBad(r)
                    ELSE RSet(r, m \cup {"HASPORT", "INPORT"})
      [] c = GT  -> IF "INPORT" \notin m THEN RBad(r) ELSE RSet(r, m \ {"INPORT"})
      [] c = LB  -> IF m # {} THEN RBad(r)
                    ELSE [ms |-> Append([r.ms EXCEPT ![Len(r.ms)] = {"HASTABLE"}], {}),
                          esc |-> FALSE, open |-> TRUE, fin |-> FALSE, bad |-> FALSE, nbar |-> r.nbar]
      [] c = RB  -> IF "INPORT" \in m THEN RBad(r)
                    ELSE IF Len(r.ms) = 1 THEN [r EXCEPT !.fin = TRUE, !.open = FALSE]
                    ELSE [r EXCEPT !.ms = SubSeq(r.ms, 1, Len(r.ms) - 1), !.open = FALSE]
      [] c = BAR -> IF "INPORT" \in m THEN RBad(r)
                    \* nbar: field separators directly inside the outermost braces
                    ELSE [RSet(r, {}) EXCEPT !.nbar = IF Len(r.ms) = 2 THEN @ + 1 ELSE @]
      [] OTHER   -> RText(r, c)

\* end of the label: a trailing backslash is text; an open level, an open port or a
\* `{` as the last character is an error
RecEndBad(r) ==
  LET q == IF r.esc /\ ~r.bad /\ ~r.fin THEN RText(r, BS) ELSE r IN
  \/ q.bad
  \/ ~q.fin /\ (q.open \/ Len(q.ms) > 1 \/ "INPORT" \in RTop(q))

RECURSIVE RecRun(_, _, _)
RecRun(r, s, k) == IF k > Len(s) THEN r ELSE RecRun(RecFeed(r, s[k]), s, k + 1)
\* is the character sequence s a well-formed record label?
RecordOK(s) == ~RecEndBad(RecRun(RecInit, s, 1))

----------------------------------------------------------------------------
\* Configuration of the DOT recogniser

Init0 ==
  [lex    |-> "ws",      \* ws id num minus str stresc html slash lcom bcom bcomstar
   buf    |-> <<>>,      \* lower-cased text of the current identifier (first MaxBuf characters)
   idh    |-> 0,         \* hash of the whole current identifier / numeral
   nid    |-> 0,         \* hash of the identifier the current statement starts with
   ids    |-> {},        \* hashes of the identifiers of the node statements with an attribute list
   hd     |-> 0,         \* nesting of < > inside an HTML string
   hx     |-> [tag |-> "", sl |-> FALSE, el |-> 0, ent |-> 0],   \* see HtmlStep
   rec    |-> RecInit,   \* record automaton over the current quoted string
   ps     |-> "top0",    \* parser state
   stk    |-> <<>>,      \* open braces: "G" graph body, "Sn"/"Se" subgraph (inside a plain / an edge statement)
   stmt   |-> "none",    \* statement the current attribute list belongs to: node edge anode aedge agraph
   key    |-> "other",   \* current attribute name: label shape other
   shrec  |-> FALSE,     \* the default node shape is `record`
   nshape |-> "inherit", \* shape given by the current statement: inherit record other
   lblbad |-> FALSE,     \* the label of the current statement is not a well-formed record label
   lblbar |-> 0,         \* field separators of the label of the current statement
   nodes  |-> 0, bare |-> 0, edges |-> 0,
   bars   |-> 0,         \* field separators in the labels of all node statements
   err    |-> ""]

Err(cfg, e) == IF cfg.err = "" THEN [cfg EXCEPT !.err = e] ELSE cfg

\* ---- tokens.  k: kind; t: text class for identifiers ("strict" ... "record" "plain")
TextClass(b) ==
  CASE b = KwStrict -> "strict" [] b = KwGraph -> "graph" [] b = KwDigraph -> "digraph"
    [] b = KwNode -> "node" [] b = KwEdge -> "edge" [] b = KwSubgraph -> "subgraph"
    [] b = TxLabel -> "label" [] b = TxShape -> "shape" [] b = TxRecord -> "record"
    [] b = TxMrecord -> "record" [] OTHER -> "plain"

IsIdTok(tk) == tk.k \in {"id", "str", "html"}
\* identifiers that may name a node, an attribute or a value (keywords may not)
IsName(tk) == IsIdTok(tk) /\ (tk.k # "id" \/ tk.t \in {"plain", "label", "shape", "record"})

\* a statement is complete: count it, check the record label of a node statement
EndStmt(cfg) ==
  LET c1 == CASE cfg.stmt = "node" /\ cfg.ps = "sI"  -> [cfg EXCEPT !.bare = @ + 1]
              [] cfg.stmt = "node"                     -> [cfg EXCEPT !.nodes = @ + 1, !.bars = @ + cfg.lblbar,
                                                                        !.ids = @ \cup {cfg.nid}]
              [] cfg.stmt = "edge"                     -> [cfg EXCEPT !.edges = @ + 1]
              [] cfg.stmt = "anode" /\ cfg.nshape # "inherit"
                                                       -> [cfg EXCEPT !.shrec = (cfg.nshape = "record")]
              [] OTHER                                 -> cfg
      isrec == cfg.nshape = "record" \/ (cfg.nshape = "inherit" /\ cfg.shrec)
      c2 == IF cfg.stmt = "node" /\ cfg.lblbad /\ isrec THEN Err(c1, "badlabel") ELSE c1
  IN [c2 EXCEPT !.ps = "s0", !.stmt = "none", !.key = "other", !.nshape = "inherit", !.lblbad = FALSE, !.lblbar = 0]

RECURSIVE Tok(_, _)
Tok(cfg, tk) ==
  IF cfg.err # "" THEN cfg ELSE
  LET ps == cfg.ps IN
  CASE ps = "top0" -> IF tk.k = "id" /\ tk.t = "strict" THEN [cfg EXCEPT !.ps = "top1"]
                      ELSE IF tk.k = "id" /\ tk.t \in {"graph", "digraph"} THEN [cfg EXCEPT !.ps = "top2"]
                      ELSE Err(cfg, "header")
    [] ps = "top1" -> IF tk.k = "id" /\ tk.t \in {"graph", "digraph"} THEN [cfg EXCEPT !.ps = "top2"]
                      ELSE Err(cfg, "header")
    [] ps = "top2" -> IF tk.k = "{" THEN [cfg EXCEPT !.ps = "s0", !.stk = <<"G">>]
                      ELSE IF IsName(tk) THEN [cfg EXCEPT !.ps = "top3"] ELSE Err(cfg, "header")
    [] ps = "top3" -> IF tk.k = "{" THEN [cfg EXCEPT !.ps = "s0", !.stk = <<"G">>] ELSE Err(cfg, "header")
    \* ---- statement start
    [] ps = "s0" ->
         CASE tk.k = ";" -> cfg
           [] tk.k = "{" -> [cfg EXCEPT !.stk = Append(@, "Sn")]
           [] tk.k = "}" -> LET top == cfg.stk[Len(cfg.stk)]
                                rest == SubSeq(cfg.stk, 1, Len(cfg.stk) - 1)
                            IN IF top = "G" THEN [cfg EXCEPT !.stk = rest, !.ps = "done"]
                               ELSE [cfg EXCEPT !.stk = rest, !.ps = "sEnd",
                                                !.stmt = IF top = "Se" THEN "edge" ELSE "sub"]
           [] tk.k = "id" /\ tk.t = "node"  -> [cfg EXCEPT !.ps = "sKw", !.stmt = "anode"]
           [] tk.k = "id" /\ tk.t = "edge"  -> [cfg EXCEPT !.ps = "sKw", !.stmt = "aedge"]
           [] tk.k = "id" /\ tk.t = "graph" -> [cfg EXCEPT !.ps = "sKw", !.stmt = "agraph"]
           [] tk.k = "id" /\ tk.t = "subgraph" -> [cfg EXCEPT !.ps = "sSub1", !.stmt = "sub"]
           [] IsName(tk) -> [cfg EXCEPT !.ps = "sI", !.stmt = "node", !.nid = tk.h]
           [] OTHER -> Err(cfg, "statement")
    \* ---- after the first identifier of a statement
    [] ps = "sI" ->
         CASE tk.k = "=" -> [cfg EXCEPT !.ps = "sEq", !.stmt = "assign"]
           [] tk.k = "[" -> [cfg EXCEPT !.ps = "a0"]
           [] tk.k \in {"->", "--"} -> [cfg EXCEPT !.ps = "sE", !.stmt = "edge"]
           [] tk.k = ":" -> [cfg EXCEPT !.ps = "sPn"]
           [] OTHER -> Tok(EndStmt(cfg), tk)
    [] ps = "sPn" -> IF IsName(tk) THEN [cfg EXCEPT !.ps = "sI"] ELSE Err(cfg, "port")
    [] ps = "sPe" -> IF IsName(tk) THEN [cfg EXCEPT !.ps = "sEI"] ELSE Err(cfg, "port")
    [] ps = "sEq" -> IF IsName(tk) THEN EndStmt(cfg) ELSE Err(cfg, "assignment")
    [] ps = "sKw" -> IF tk.k = "[" THEN [cfg EXCEPT !.ps = "a0"] ELSE Err(cfg, "attr-statement")
    [] ps = "sSub1" -> IF tk.k = "{" THEN [cfg EXCEPT !.ps = "s0", !.stmt = "none", !.stk = Append(@, "Sn")]
                       ELSE IF IsName(tk) THEN [cfg EXCEPT !.ps = "sSub2"] ELSE Err(cfg, "subgraph")
    [] ps = "sSub2" -> IF tk.k = "{" THEN [cfg EXCEPT !.ps = "s0", !.stmt = "none", !.stk = Append(@, "Sn")]
                       ELSE Err(cfg, "subgraph")
    \* ---- edges
    [] ps = "sE" ->
         CASE tk.k = "{" -> [cfg EXCEPT !.ps = "s0", !.stmt = "none", !.stk = Append(@, "Se")]
           [] tk.k = "id" /\ tk.t = "subgraph" -> [cfg EXCEPT !.ps = "sESub1"]
           [] IsName(tk) -> [cfg EXCEPT !.ps = "sEI"]
           [] OTHER -> Err(cfg, "edge")
    [] ps = "sESub1" -> IF tk.k = "{" THEN [cfg EXCEPT !.ps = "s0", !.stmt = "none", !.stk = Append(@, "Se")]
                        ELSE IF IsName(tk) THEN [cfg EXCEPT !.ps = "sESub2"] ELSE Err(cfg, "subgraph")
    [] ps = "sESub2" -> IF tk.k = "{" THEN [cfg EXCEPT !.ps = "s0", !.stmt = "none", !.stk = Append(@, "Se")]
                        ELSE Err(cfg, "subgraph")
    [] ps = "sEI" ->
         CASE tk.k \in {"->", "--"} -> [cfg EXCEPT !.ps = "sE"]
           [] tk.k = "[" -> [cfg EXCEPT !.ps = "a0"]
           [] tk.k = ":" -> [cfg EXCEPT !.ps = "sPe"]
           [] OTHER -> Tok(EndStmt(cfg), tk)
    \* ---- after the closing brace of a subgraph
    [] ps = "sEnd" ->
         CASE tk.k \in {"->", "--"} -> [cfg EXCEPT !.ps = "sE", !.stmt = "edge"]
           [] tk.k = "[" /\ cfg.stmt = "edge" -> [cfg EXCEPT !.ps = "a0"]
           [] OTHER -> Tok(EndStmt(cfg), tk)
    \* ---- attribute lists
    [] ps = "a0" ->
         CASE tk.k = "]" -> [cfg EXCEPT !.ps = "aEnd"]
           [] tk.k \in {",", ";"} -> Err(cfg, "attribute")
           [] IsName(tk) -> [cfg EXCEPT !.ps = "aK",
                                        !.key = IF tk.k = "id" /\ tk.t \in {"label", "shape"} THEN tk.t ELSE "other"]
           [] OTHER -> Err(cfg, "attribute")
    [] ps = "aK" -> IF tk.k = "=" THEN [cfg EXCEPT !.ps = "aE"] ELSE Err(cfg, "attribute")
    [] ps = "aE" ->
         IF ~IsName(tk) THEN Err(cfg, "attribute")
         ELSE CASE cfg.key = "shape" -> [cfg EXCEPT !.ps = "aV",
                                            !.nshape = IF tk.k = "id" /\ tk.t = "record" THEN "record" ELSE "other"]
                [] cfg.key = "label" -> [cfg EXCEPT !.ps = "aV", !.lblbad = (tk.k = "str" /\ tk.bad), !.lblbar = tk.nbar]
                [] OTHER -> [cfg EXCEPT !.ps = "aV"]
    [] ps = "aV" ->
         CASE tk.k \in {",", ";"} -> [cfg EXCEPT !.ps = "a0"]
           [] tk.k = "]" -> [cfg EXCEPT !.ps = "aEnd"]
           [] IsName(tk) -> Tok([cfg EXCEPT !.ps = "a0"], tk)
           [] OTHER -> Err(cfg, "attribute")
    [] ps = "aEnd" -> IF tk.k = "[" THEN [cfg EXCEPT !.ps = "a0"] ELSE Tok(EndStmt(cfg), tk)
    [] ps = "done" -> Err(cfg, "trailing")
    [] OTHER -> Err(cfg, "state")

Punct(c) == CASE c = LB -> "{" [] c = RB -> "}" [] c = LSQ -> "[" [] c = RSQ -> "]" [] c = EQ -> "="
              [] c = SEMI -> ";" [] c = COMMA -> "," [] c = COLON -> ":" [] OTHER -> "?"
PTok(k) == [k |-> k, t |-> "plain", bad |-> FALSE, nbar |-> 0, h |-> 0]

\* ---- inside an HTML string < ... >.  The DOT scanner only counts angle brackets; Graphviz then
\* parses the text as XML.  Of that the recogniser checks: tags are closed (`<x>` ... `</x>`,
\* `<x/>`), no `<` inside a tag, and an ampersand starts an entity `&name;` / `&#digits;`.
\* hx.tag: "" text, "start" just after `<`, "open" / "close" / "bang" inside such a tag;
\* hx.sl: the previous character of the tag was `/`; hx.el: open elements; hx.ent: 0 no entity,
\* 1 after `&`, 2 inside the name
AMP == 38   HASH == 35   BANG == 33
HtmlInit == [tag |-> "", sl |-> FALSE, el |-> 0, ent |-> 0]
HtmlStep(cfg, c) ==
  LET h == cfg.hx IN
  IF h.tag # "" THEN
    \* inside a tag
    CASE c = LT -> Err(cfg, "html-tag")
      [] c = GT ->
           LET el2 == IF h.tag = "close" THEN h.el - 1
                      ELSE IF h.tag = "bang" \/ h.sl THEN h.el ELSE h.el + 1
           IN IF h.tag = "start" \/ el2 < 0 THEN Err(cfg, "html-tag")
              ELSE [cfg EXCEPT !.hd = @ - 1, !.hx = [tag |-> "", sl |-> FALSE, el |-> el2, ent |-> 0]]
      [] h.tag = "start" ->
           IF c = SLASH THEN [cfg EXCEPT !.hx.tag = "close"]
           ELSE IF c = BANG THEN [cfg EXCEPT !.hx.tag = "bang"]
           ELSE IF IsLetter(c) THEN [cfg EXCEPT !.hx.tag = "open"]
           ELSE Err(cfg, "html-tag")
      [] OTHER -> [cfg EXCEPT !.hx.sl = (c = SLASH)]
  ELSE IF h.ent = 1 THEN
    IF IsLetter(c) \/ c = HASH THEN [cfg EXCEPT !.hx.ent = 2] ELSE Err(cfg, "html-entity")
  ELSE IF h.ent = 2 THEN
    IF IsLetter(c) \/ IsDigit(c) THEN cfg
    ELSE IF c = SEMI THEN [cfg EXCEPT !.hx.ent = 0] ELSE Err(cfg, "html-entity")
  ELSE
    CASE c = LT  -> [cfg EXCEPT !.hd = @ + 1, !.hx.tag = "start"]
      [] c = GT  -> \* the end of the HTML string
                    IF h.el # 0 THEN Err(cfg, "html-tag")
                    ELSE Tok([cfg EXCEPT !.lex = "ws", !.hd = 0],
                             [k |-> "html", t |-> "plain", bad |-> FALSE, nbar |-> 0, h |-> 0])
      [] c = AMP -> [cfg EXCEPT !.hx.ent = 1]
      [] OTHER   -> cfg

\* identifiers are told apart by a hash of all their characters (node ids are long numerals)
Hash(h, c) == (h * 31 + c) % 1000003

\* ---- one character
RECURSIVE Step(_, _)
Step(cfg, c) ==
  IF cfg.err # "" THEN cfg ELSE
  LET lx == cfg.lex IN
  CASE lx = "ws" ->
         CASE IsWS(c) -> cfg
           [] IsLetter(c) -> [cfg EXCEPT !.lex = "id", !.buf = <<Lower(c)>>, !.idh = Hash(0, c)]
           [] IsDigit(c) \/ c = DOT -> [cfg EXCEPT !.lex = "num", !.idh = Hash(0, c)]
           [] c = MINUS -> [cfg EXCEPT !.lex = "minus", !.idh = Hash(0, c)]
           [] c = DQ -> [cfg EXCEPT !.lex = "str", !.rec = RecInit]
           [] c = LT -> [cfg EXCEPT !.lex = "html", !.hd = 1, !.hx = [tag |-> "", sl |-> FALSE, el |-> 0, ent |-> 0]]
           [] c = SLASH -> [cfg EXCEPT !.lex = "slash"]
           [] Punct(c) # "?" -> Tok(cfg, PTok(Punct(c)))
           [] OTHER -> Err(cfg, "character")
    [] lx = "id" ->
         IF IsLetter(c) \/ IsDigit(c)
         THEN [cfg EXCEPT !.buf = IF Len(@) < MaxBuf THEN Append(@, Lower(c)) ELSE @, !.idh = Hash(@, c)]
         ELSE Step(Tok([cfg EXCEPT !.lex = "ws"], [k |-> "id", t |-> TextClass(cfg.buf), bad |-> FALSE, nbar |-> 0, h |-> cfg.idh]), c)
    [] lx = "num" ->
         IF IsDigit(c) \/ c = DOT THEN [cfg EXCEPT !.idh = Hash(@, c)]
         ELSE Step(Tok([cfg EXCEPT !.lex = "ws"], [k |-> "id", t |-> "plain", bad |-> FALSE, nbar |-> 0, h |-> cfg.idh]), c)
    [] lx = "minus" ->
         CASE c = GT -> Tok([cfg EXCEPT !.lex = "ws"], PTok("->"))
           [] c = MINUS -> Tok([cfg EXCEPT !.lex = "ws"], PTok("--"))
           [] IsDigit(c) \/ c = DOT -> [cfg EXCEPT !.lex = "num", !.idh = Hash(@, c)]
           [] OTHER -> Err(cfg, "character")
    [] lx = "str" ->
         CASE c = DQ -> Tok([cfg EXCEPT !.lex = "ws"], [k |-> "str", t |-> "plain", bad |-> RecEndBad(cfg.rec), nbar |-> cfg.rec.nbar, h |-> 0])
           [] c = BS -> [cfg EXCEPT !.lex = "stresc"]
           [] OTHER -> [cfg EXCEPT !.rec = RecFeed(@, c)]
    [] lx = "stresc" ->
         \* \" is a quote character, \\ stays two backslashes, \newline disappears, any other
         \* backslash stays in the string
         CASE c = DQ -> [cfg EXCEPT !.lex = "str", !.rec = RecFeed(@, DQ)]
           [] c = NL -> [cfg EXCEPT !.lex = "str"]
           [] c = BS -> [cfg EXCEPT !.lex = "str", !.rec = RecFeed(RecFeed(@, BS), BS)]
           [] OTHER -> [cfg EXCEPT !.lex = "str", !.rec = RecFeed(RecFeed(@, BS), c)]
    [] lx = "html" -> HtmlStep(cfg, c)
    [] lx = "slash" ->
         CASE c = SLASH -> [cfg EXCEPT !.lex = "lcom"]
           [] c = STAR -> [cfg EXCEPT !.lex = "bcom"]
           [] OTHER -> Err(cfg, "character")
    [] lx = "lcom" -> IF c = NL THEN [cfg EXCEPT !.lex = "ws"] ELSE cfg
    [] lx = "bcom" -> IF c = STAR THEN [cfg EXCEPT !.lex = "bcomstar"] ELSE cfg
    [] lx = "bcomstar" -> IF c = SLASH THEN [cfg EXCEPT !.lex = "ws"]
                          ELSE IF c = STAR THEN cfg ELSE [cfg EXCEPT !.lex = "bcom"]
    [] OTHER -> Err(cfg, "state")

Accepting(cfg) == cfg.err = "" /\ cfg.ps = "done" /\ cfg.lex \in {"ws", "lcom"} /\ cfg.stk = <<>>

RECURSIVE Run(_, _, _)
Run(cfg, s, k) == IF k > Len(s) THEN cfg ELSE Run(Step(cfg, s[k]), s, k + 1)
\* is the character sequence s a DOT graph?
DotOK(s) == Accepting(Run(Init0, s, 1))
=============================================================================
