SPECIFICATION Spec
CONSTANTS
  MM <- EnvMM
  Dev <- EnvDev
  MaxN <- EnvMaxN
  MaxNamed <- EnvMaxNamed
  MaxUnnamed <- EnvMaxUn
  MaxRefs <- EnvMaxRefs
  Names <- EnvNames
  Sorted <- EnvSorted
  FullN <- EnvFullN
  Builtins <- XYBuiltins
INVARIANT TWellFormed
INVARIANT TConforms
INVARIANT TPlain
INVARIANT TLoad
CHECK_DEADLOCK FALSE
