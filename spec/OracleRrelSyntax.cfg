SPECIFICATION Spec
CONSTANTS
  Dev <- ODev
CHECK_DEADLOCK FALSE
