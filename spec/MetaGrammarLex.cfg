SPECIFICATION Spec
CONSTANTS
  Dev <- EnvDev
INVARIANT ReRuleSound
INVARIANT FirstSlashCloses
INVARIANT LexAgrees
INVARIANT LexTotal
INVARIANT EmitChunk
CHECK_DEADLOCK FALSE
