SPECIFICATION Spec
CONSTANTS
  Dev <- EnvDev
INVARIANT ReRuleSound
INVARIANT FirstSlashCloses
INVARIANT LexAgrees
INVARIANT CommentRule
INVARIANT LexTotal
INVARIANT EmitChunk
CHECK_DEADLOCK FALSE
