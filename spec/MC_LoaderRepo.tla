--------------------------- MODULE MC_LoaderRepo ---------------------------
(* Constants of the model-checking / emission runs of LoaderRepo (stage 2 of   *)
(* the S->I pass): the scenarios are read from a JSON file, so that the values *)
(* TLC works on are explicit records.  Environment:                            *)
(*   VT_SCEN  JSON file: list of scenarios of this shard (from EnumLoaderRepo) *)
(*   VT_DEVS  JSON file: list of deviation clauses that may be switched on     *)
EXTENDS LoaderRepo, IOUtils

FileScenarios == JsonDeserialize(IOEnv.VT_SCEN)
FileDevs      == Range(JsonDeserialize(IOEnv.VT_DEVS))
ForceOn       == TRUE
ForceOff      == FALSE

\* the invariants judge the documented semantics only
G_C17_OpenOnce      == dev = {} => C17_OpenOnce
G_C17_OpensCreated  == dev = {} => C17_OpensCreated
G_C17_Identity      == dev = {} => C17_Identity
G_C17_CachedNotOpened == dev = {} => C17_CachedNotOpened
G_C17_CacheSame     == dev = {} => C17_CacheSame
G_C17_CacheKept     == dev = {} => C17_CacheKept
G_C18_CleanRepos    == dev = {} => C18_CleanRepos
G_C18_RepairedReload == dev = {} => C18_RepairedReload
G_C27_Reject        == dev = {} => C27_Reject
G_C27_Params        == dev = {} => C27_Params
G_C28_Location      == dev = {} => C28_Location
=============================================================================
