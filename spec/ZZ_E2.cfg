SPECIFICATION Spec
CONSTANTS
  Scenarios <- EnvScenarios
  Order = "textual"
  Dev <- EnvDev
INVARIANT EmitFinal
CHECK_DEADLOCK FALSE
