-------------------------------- MODULE Nav --------------------------------
(***************************************************************************)
(* Object graphs of textX models and the navigation / default-resolution    *)
(* API over them (properties C05 and C07).                                  *)
(*                                                                         *)
(* A meta-model is data (MM): concrete classes with their ordered           *)
(* attributes, and the abstract-rule hierarchy that defines conformance.    *)
(* A model is data (g): per object its class, its name ("" = no name        *)
(* attribute), its parent (0 = none), its containment children per          *)
(* containment attribute in meta-model order, and the reference texts of    *)
(* its non-containment attributes.  The module says what                    *)
(*   obj.parent, get_model, get_children, get_children_of_type,             *)
(*   get_parent_of_type          (C05)                                      *)
(* and the default scope provider with the builtins fallback  (C07)         *)
(* have to return on such a graph.                                          *)
(*                                                                         *)
(* Predicates (selector, should_follow) are extensional: sets of objects.   *)
(* `Dev` names deviation clauses; the documented semantics is Dev = {}.     *)
(***************************************************************************)
EXTENDS Naturals, Sequences, FiniteSets, TLC

CONSTANTS
  MM,    \* [root |-> class name,
         \*  classes   |-> Seq of [name, named, attrs |-> Seq of [name, cont, many, typ, alts, prim]],
         \*  abstracts |-> Seq of [name, subs |-> Seq of rule names]]
         \* typ is a rule name, or "OBJECT" for an attribute assigned at several
         \* places with different rules, which are then listed in alts.
         \* prim: the attribute can also hold plain values (a match-rule /
         \* base-type alternative); in a model such a value is written 0.
         \* The rule hierarchy may contain diamonds and cycles.
  Dev    \* set of deviation clause names

Range(s) == {s[i] : i \in 1..Len(s)}
NoDup(s) == \A i, j \in 1..Len(s) : s[i] = s[j] => i = j

RECURSIVE Flat(_)
Flat(ss) == IF ss = <<>> THEN <<>> ELSE Head(ss) \o Flat(Tail(ss))

----------------------------------------------------------------------------
\* Meta-model: classes, attributes, conformance

ClassNames    == {MM.classes[i].name : i \in 1..Len(MM.classes)}
AbstractNames == {MM.abstracts[i].name : i \in 1..Len(MM.abstracts)}
ClassOf(c)    == MM.classes[CHOOSE i \in 1..Len(MM.classes) : MM.classes[i].name = c]
ClassIdx(c)   == CHOOSE i \in 1..Len(MM.classes) : MM.classes[i].name = c
SubsOf(t)     == MM.abstracts[CHOOSE i \in 1..Len(MM.abstracts) : MM.abstracts[i].name = t].subs

ContAttrs(c) == SelectSeq(ClassOf(c).attrs, LAMBDA a : a.cont)
RefAttrs(c)  == SelectSeq(ClassOf(c).attrs, LAMBDA a : ~a.cont)

\* textx_isinstance on classes: a class conforms to itself, to OBJECT, and to
\* every abstract rule one of whose alternatives it conforms to (V: the abstract
\* rules already being examined -- rules may refer to each other in a cycle,
\* and a rule met again is skipped, the remaining alternatives still count).
RECURSIVE ConfV(_, _, _)
ConfV(c, t, V) ==
  \/ t = "OBJECT"
  \/ c = t
  \/ /\ "ClassNameOnly" \notin Dev
     /\ t \in AbstractNames /\ t \notin V
     /\ \E i \in 1..Len(SubsOf(t)) : ConfV(c, SubsOf(t)[i], V \cup {t})
Conforms(c, t) == ConfV(c, t, {})

ConcreteOf(t) == {c \in ClassNames : Conforms(c, t)}

\* classes of the objects a containment attribute can hold
Allowed(at) == IF at.typ = "OBJECT" THEN Range(at.alts) ELSE ConcreteOf(at.typ)

\* the same relation, declaratively: the leaves below t in the rule hierarchy,
\* unfolded `fuel` times (enough: one more than the number of abstract rules)
Fuel == Len(MM.abstracts) + 1
RECURSIVE Below(_, _)
Below(t, fuel) ==
  IF t \in ClassNames THEN {t}
  ELSE IF t \notin AbstractNames \/ fuel = 0 THEN {}
  ELSE UNION {Below(SubsOf(t)[i], fuel - 1) : i \in 1..Len(SubsOf(t))}

----------------------------------------------------------------------------
\* Models

Objs(g) == 1..Len(g.cls)

\* the objects o contains, in order (plain values, written 0, are not objects:
\* they are never returned, have no parent and nothing below them)
KidsOf(g, o) == SelectSeq(Flat([i \in 1..Len(g.kids[o]) |-> g.kids[o][i].e]), LAMBDA k : k # 0)

Roots(g)   == {o \in Objs(g) : g.par[o] = 0}
TheRoot(g) == CHOOSE o \in Objs(g) : g.par[o] = 0

\* strict ancestors, following `parent`
RECURSIVE AncSeq(_, _, _)
AncSeq(g, o, fuel) ==
  IF g.par[o] = 0 \/ fuel = 0 THEN <<>> ELSE <<g.par[o]>> \o AncSeq(g, g.par[o], fuel - 1)
Ancestors(g, o) == Range(AncSeq(g, o, Len(g.cls)))

\* g is an object tree that conforms to MM
WellFormed(g) ==
  LET n == Len(g.cls) IN
  /\ n >= 1 /\ Len(g.name) = n /\ Len(g.par) = n /\ Len(g.kids) = n /\ Len(g.refs) = n
  /\ Cardinality(Roots(g)) = 1
  /\ \A o \in Objs(g) :
       /\ g.cls[o] \in ClassNames
       /\ g.par[o] \in 0..n
       /\ (g.name[o] = "") <=> ~ClassOf(g.cls[o]).named
       /\ LET ca == ContAttrs(g.cls[o])  ra == RefAttrs(g.cls[o]) IN
          /\ Len(g.kids[o]) = Len(ca) /\ Len(g.refs[o]) = Len(ra)
          /\ \A i \in 1..Len(ca) :
               /\ g.kids[o][i].a = ca[i].name
               /\ (~ca[i].many => Len(g.kids[o][i].e) <= 1)
               /\ \A j \in 1..Len(g.kids[o][i].e) :
                    LET k == g.kids[o][i].e[j] IN
                    \/ k = 0 /\ ca[i].prim
                    \/ k \in Objs(g) /\ g.cls[k] \in Allowed(ca[i])
          /\ \A i \in 1..Len(ra) :
               /\ g.refs[o][i].a = ra[i].name
               /\ (~ra[i].many => Len(g.refs[o][i].names) <= 1)
  \* every object is contained exactly where its parent link says
  /\ \A o \in Objs(g) : \A k \in Range(KidsOf(g, o)) : g.par[k] = o
  /\ NoDup(Flat([o \in Objs(g) |-> KidsOf(g, o)]))
  /\ \A k \in Objs(g) : g.par[k] # 0 => k \in Range(KidsOf(g, g.par[k]))
  /\ \A o \in Objs(g) : o \notin Ancestors(g, o)

----------------------------------------------------------------------------
\* C05: navigation

\* get_model(o): follow parent to the object that has none
RECURSIVE RootFrom(_, _, _)
RootFrom(g, o, fuel) == IF g.par[o] = 0 \/ fuel = 0 THEN o ELSE RootFrom(g, g.par[o], fuel - 1)
RootOf(g, o) == RootFrom(g, o, Len(g.cls))

\* `rootNone`: the root object carries an attribute `parent` whose value is None
\* (a user class for a recursive root rule that stores its `parent` argument).
\* 0 stands for None.
ModelOf(g, o, rootNone) ==
  IF "GetModelThroughNoneParent" \in Dev /\ rootNone THEN 0 ELSE RootOf(g, o)

\* get_parent_of_type(t, o): nearest strict ancestor whose class is t, else 0
RECURSIVE PoTFrom(_, _, _, _)
PoTFrom(g, t, o, fuel) ==
  IF o = 0 \/ fuel = 0 THEN 0
  ELSE IF g.cls[o] = t THEN o
  ELSE PoTFrom(g, t, g.par[o], fuel - 1)
ParentOfType(g, t, o) ==
  PoTFrom(g, t, IF "ParentOfTypeFromSelf" \in Dev THEN o ELSE g.par[o], Len(g.cls) + 1)

\* objects named by the reference texts of o (only used by a deviation clause)
RefTargets(g, o) ==
  LET nms == Flat([i \in 1..Len(g.refs[o]) |-> g.refs[o][i].names])
      hit(nm) == SelectSeq([k \in Objs(g) |-> k], LAMBDA k : g.name[k] = nm)
  IN Flat([i \in 1..Len(nms) |-> hit(nms[i])])

\* get_children(selector = S, root, children_first = cf, should_follow = F):
\* depth-first over containment attributes in meta-model order, list elements
\* in list order; an element outside F is neither returned nor descended into;
\* the start object is always visited.
RECURSIVE Visit(_, _, _, _, _, _)
Visit(g, S, cf, F, o, fuel) ==
  IF fuel = 0 THEN <<>> ELSE
  LET next  == IF "FollowRefs" \in Dev THEN KidsOf(g, o) \o RefTargets(g, o) ELSE KidsOf(g, o)
      below == Flat([i \in 1..Len(next) |->
                       IF next[i] \in F THEN Visit(g, S, cf, F, next[i], fuel - 1) ELSE <<>>])
      me    == IF o \in S THEN <<o>> ELSE <<>>
  IN IF cf \/ "AlwaysChildrenFirst" \in Dev THEN below \o me ELSE me \o below

Children(g, S, root, cf, F) == Visit(g, S, cf, F, root, Len(g.cls))

\* get_children_of_type(t, root, cf, F): t a concrete class
ChildrenOfType(g, t, root, cf, F) ==
  Children(g, {o \in Objs(g) : g.cls[o] = t}, root, cf, F)

\* declarative counterpart of the traversal: o is reached from root under F iff
\* it is root, or it is in F and its parent is reached
RECURSIVE Reached(_, _, _, _, _)
Reached(g, root, F, o, fuel) ==
  \/ o = root
  \/ /\ fuel > 0 /\ g.par[o] # 0 /\ o \in F
     /\ Reached(g, root, F, g.par[o], fuel - 1)
ReachSet(g, root, F) == {o \in Objs(g) : Reached(g, root, F, o, Len(g.cls))}

----------------------------------------------------------------------------
\* C07: default reference resolution (PlainName + builtins fallback)
\* B: builtins, Seq of [name, cls];  nm: reference text;  t: target rule

NameMatch(g, nm, t) ==
  {o \in Objs(g) : g.name[o] # "" /\ g.name[o] = nm
                   /\ ("NoTypeTest" \in Dev \/ Conforms(g.cls[o], t))}

BuiltinHit(B, nm, t) == {i \in 1..Len(B) : B[i].name = nm /\ Conforms(B[i].cls, t)}

\* result kinds: "obj" (v = object number), "builtin" (v = its name),
\* "unknown", "notunique" (v = "-")
Res(k, v) == [k |-> k, v |-> v]

Plain(g, nm, t, B) ==
  LET found == Children(g, NameMatch(g, nm, t), TheRoot(g), FALSE, Objs(g))
      bi    == BuiltinHit(B, nm, t)
  IN IF "BuiltinsFirst" \in Dev /\ bi # {} THEN Res("builtin", nm)
     ELSE IF Len(found) = 1 THEN Res("obj", ToString(found[1]))
     ELSE IF Len(found) > 1 THEN
            IF "FirstMatch" \in Dev THEN Res("obj", ToString(found[1])) ELSE Res("notunique", "-")
     ELSE IF bi # {} THEN Res("builtin", nm)
     ELSE Res("unknown", "-")

\* all references of a model: [o, i (ref attribute index), j (position), nm, t]
Sites(g) ==
  UNION { UNION { { [o |-> o, i |-> i, j |-> j, nm |-> g.refs[o][i].names[j],
                     t |-> RefAttrs(g.cls[o])[i].typ] : j \in 1..Len(g.refs[o][i].names) }
                  : i \in 1..Len(g.refs[o]) }
          : o \in Objs(g) }

IsErr(r) == r.k \in {"unknown", "notunique"}

\* Loading: every reference is resolved on its own; the load fails iff some
\* reference fails, with the error of one of the failing references
\* (which one is reported first is not part of the property).
LoadErrors(g, B) ==
  {[k |-> Plain(g, s.nm, s.t, B).k, name |-> s.nm,
    cls |-> IF Plain(g, s.nm, s.t, B).k = "unknown" THEN s.t ELSE "-"] :
     s \in {x \in Sites(g) : IsErr(Plain(g, x.nm, x.t, B))}}

Resolved(g, B) ==
  [o \in Objs(g) |-> [i \in 1..Len(g.refs[o]) |->
     [a |-> g.refs[o][i].a,
      t |-> [j \in 1..Len(g.refs[o][i].names) |->
               LET r == Plain(g, g.refs[o][i].names[j], RefAttrs(g.cls[o])[i].typ, B)
               IN IF r.k = "builtin" THEN "B:" \o r.v ELSE r.v]]]]
=============================================================================
