---------------------------- MODULE RrelOracle ----------------------------
(* Oracle mode of Rrel.tla (C11): JSON cases in, answers out.                *)
(*  q = "reach": per referencing object the accepted set of every           *)
(*      alternative, the deciding alternative and the set of objects the    *)
(*      reference may resolve to -- under the documented semantics and under *)
(*      the deviation StarMarksStart;                                        *)
(*  q = "path":  the case carries an observed `+p:` path; one verdict for    *)
(*      the documented semantics and one per deviation set.                  *)
EXTENDS Rrel, Json, IOUtils

\* the cases are parsed once and kept in a TLC register (run with one worker)
ASSUME TLCSet(1, JsonDeserialize(IOEnv.VT_CASES))
Cases == TLCGet(1)

Mk(x, s, dev, track, obs) ==
  [objs |-> x.objs, expr |-> x.expr, names |-> x.names, cls |-> x.cls,
   start |-> s, dev |-> dev, track |-> track, obs |-> obs]

SMS == {"StarMarksStart"}
PLN == {"ProxyLastNamed"}

\* the result rule on the evaluated accepted sets (each Reach is evaluated once)
FirstNonEmpty(A) == LET J == {j \in 1..Len(A) : A[j] # <<>>} IN IF J = {} THEN 0 ELSE Min(J)
One(c) == LET A == [j \in 1..NAlt(c) |-> SetToSeq(Accepted(c, j))]
              d == FirstNonEmpty(A)
          IN [acc |-> A, alt |-> d, allowed |-> IF d = 0 THEN <<>> ELSE A[d]]

\* StarMarksStart can only matter when some `*` in first position can start at the root
\* (theorem DevOnlyRemoves of MC_Rrel); otherwise the second evaluation is skipped
RECURSIVE RootStarFirst(_)
RootStarFirst(e) == CASE e.k = "star" -> SR(e.e) \/ RootStarFirst(e.e)
                      [] e.k = "br"   -> \E j \in 1..Len(e.paths) : RootStarFirst(e.paths[j].els[1])
                      [] OTHER        -> FALSE
DevMatters(x) == \E j \in 1..Len(x.expr.paths) : RootStarFirst(x.expr.paths[j].els[1])

ReachAnswer(x) ==
  [id |-> x.id,
   per |-> [n \in 1..Len(x.starts) |->
     LET c == One(Mk(x, x.starts[n], {}, FALSE, <<>>))
         d == IF DevMatters(x) THEN One(Mk(x, x.starts[n], SMS, FALSE, <<>>)) ELSE c
     IN [start |-> x.starts[n], acc |-> c.acc, alt |-> c.alt, allowed |-> c.allowed,
         accd |-> d.acc, altd |-> d.alt, allowedd |-> d.allowed]]]

\* `+p:` -- is the observed path x.obs the path of a witnessing derivation of the deciding
\* alternative?  x.alt / x.altd are the deciding alternatives this module computed for the
\* case in its "reach" answer (documented / StarMarksStart).  The deviation sets are only
\* evaluated when the documented semantics says no.
PathAnswer(x) ==
  LET W(j, dev) == j # 0 /\ PathWitness(Mk(x, x.start, dev, TRUE, x.obs), j)
      doc == W(x.alt, {})
  IN [id |-> x.id, doc |-> doc,
      sms  |-> ~doc /\ W(x.altd, SMS),
      pln  |-> ~doc /\ W(x.alt, PLN),
      both |-> ~doc /\ W(x.altd, SMS \cup PLN)]

Answer(x) == IF x.q = "path" THEN PathAnswer(x) ELSE ReachAnswer(x)

VARIABLE i
Init == i = 0
Next == /\ i < Len(Cases) /\ i' = i + 1
        /\ PrintT("RESULT|" \o ToJson(Answer(Cases[i + 1])))
Spec == Init /\ [][Next]_i
=============================================================================
