--------------------------- MODULE MC_MetaGrammar ---------------------------
EXTENDS MetaGrammarGen, IOUtils
\* budgets come from the environment (the harness sets them per tier)
NMain   == atoi(IOEnv.VT_NMAIN)
NLink   == atoi(IOEnv.VT_NLINK)
NMods   == atoi(IOEnv.VT_NMODS)
NParams == atoi(IOEnv.VT_NPARAMS)
Phrases == {"obj_ref", "repeat_modifiers", "rule_params"}
\* a rule body that the compiler reduces to a bare rule reference
AliasBody == Sq(<<Al(<<Cl("ALIASREF"), Sq(<<Tk("("), Cl("ALIASREF"), Op(Tk("-"), 1), Tk(")")>>)>>, <<0, 1>>),
                  Op(Tk("-"), 1)>>)
MCSeeds == <<
  \* 1: the whole grammar; links, repeat modifiers and rule parameters in their default form
  [todo |-> <<Nt("textx_model")>>, n |-> NMain, zr |-> Phrases, dev |-> {}],
  \* 2: every link form (match rule, both separators, RREL with flags, fixed names, parent, brackets ...)
  [todo |-> <<Tk("A"), Tk(":"), Tk("x"), Tk("="), Nt("obj_ref"), Tk(";")>>, n |-> NLink, zr |-> {}, dev |-> {}],
  \* 3, 4: every repeat-modifier list, on a repetition and on an assignment
  [todo |-> <<Tk("A"), Tk(":"), Tk("'a'"), Tk("*"), Nt("repeat_modifiers"), Tk(";")>>, n |-> NMods, zr |-> {}, dev |-> {}],
  [todo |-> <<Tk("A"), Tk(":"), Tk("x"), Tk("+="), Tk("'a'"), Nt("repeat_modifiers"), Tk(";")>>, n |-> NMods, zr |-> {}, dev |-> {}],
  \* 5: every rule-parameter list
  [todo |-> <<Tk("A"), Nt("rule_params"), Tk(":"), Tk("'a'"), Tk(";")>>, n |-> NParams, zr |-> {}, dev |-> {}],
  \* 6: the texts the self-hosted grammar adds: no rule at all
  [todo |-> <<Sr(Nt("import_or_reference_stm"), 1)>>, n |-> 2, zr |-> {}, dev |-> {"TxNoRulesOk"}],
  \* 7: a rule reference (each representative name) followed by repeat modifiers
  [todo |-> <<Tk("A"), Tk(":"), Tk("x"), Tk("+="), Nt("rule_ref"), Nt("repeat_modifiers"), Tk(";")>>,
   n |-> 1, zr |-> {}, dev |-> {}],
  \* 8-11: two assignments to the same attribute, every pair of assignment operators,
  \* the second / the first / the second without brackets under every repeat operator, and unrepeated
  [todo |-> <<Tk("A"), Tk(":"), Tk("x"), Nt("assignment_op"), Tk("'a'"),
              Tk("("), Tk("x"), Nt("assignment_op"), Tk("'a'"), Tk(")"), Nt("repeat_sign"), Tk(";")>>,
   n |-> 3, zr |-> {}, dev |-> {}],
  [todo |-> <<Tk("A"), Tk(":"), Tk("("), Tk("x"), Nt("assignment_op"), Tk("'a'"), Tk(")"), Nt("repeat_sign"),
              Tk("x"), Nt("assignment_op"), Tk("'a'"), Tk(";")>>,
   n |-> 3, zr |-> {}, dev |-> {}],
  [todo |-> <<Tk("A"), Tk(":"), Tk("x"), Nt("assignment_op"), Tk("'a'"),
              Tk("x"), Nt("assignment_op"), Tk("'a'"), Nt("repeat_sign"), Tk(";")>>,
   n |-> 3, zr |-> {}, dev |-> {}],
  [todo |-> <<Tk("A"), Tk(":"), Tk("x"), Nt("assignment_op"), Tk("'a'"),
              Tk("x"), Nt("assignment_op"), Nt("assignment_rhs"), Tk(";")>>,
   n |-> 3, zr |-> {"obj_ref", "repeat_modifiers"}, dev |-> {}],
  \* 12, 13: rules whose body is only a rule reference (plain, bracketed, suppressed): two and three rules
  [todo |-> <<Tk("A"), Tk(":"), AliasBody, Tk(";"), Tk("B"), Tk(":"), AliasBody, Tk(";")>>,
   n |-> 3, zr |-> {}, dev |-> {}],
  [todo |-> <<Tk("A"), Tk(":"), Tk("B"), Tk(";"), Tk("B"), Tk(":"), AliasBody, Tk(";"),
              Tk("C"), Tk(":"), AliasBody, Tk(";")>>,
   n |-> 3, zr |-> {}, dev |-> {}]
>>
NoDev   == {}
EnvDev  == IF IOEnv.VT_DEV = "" THEN {} ELSE {IOEnv.VT_DEV}
=============================================================================
