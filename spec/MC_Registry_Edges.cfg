SPECIFICATION Spec
CONSTANTS
  Names <- MCNames
  Lower <- MCLower
  Patterns <- MCPatterns
  Files <- MCFiles
  Match <- MCMatch
  EPLangs <- MCEPLangs
  EPGens <- MCEPGens
  Targets <- MCTargets
  MaxFresh = 2
  Ops <- EdgeOps
  Dev <- EdgeDev
VIEW core
CONSTRAINT Bound
ACTION_CONSTRAINT EmitEdge
CHECK_DEADLOCK FALSE
