-------------------------------- MODULE Fqn --------------------------------
(***************************************************************************)
(* The FQN scope provider (textx/scoping/providers.py, docs/src/scoping.md)*)
(* -- property C10.                                                        *)
(*                                                                         *)
(* A case c is a record                                                    *)
(*   objs  Seq of [cls, name, named, truthy, parent, attrs]; ids 1..n,      *)
(*         1 = root; named = FALSE: an anonymous object (it can be the     *)
(*         start of a chain, never a segment); truthy = the Python truth   *)
(*         value of the object (user classes may define __len__/__bool__;  *)
(*         irrelevant for the documented semantics);                       *)
(*         attrs = the attributes in the order of the grammar rule, each   *)
(*         [k |-> "cont", attr, els]  containment: ordered contained ids   *)
(*         [k |-> "ref",  attr, els]  non-containment reference attribute  *)
(*                                    (els unused: what it holds depends   *)
(*                                    on what has been resolved so far)    *)
(*   refs  the references of the model in textual order,                   *)
(*         [owner, attr, parts, cls]: object holding the reference, the    *)
(*         attribute, the dotted name, the target class                    *)
(* Documented (Dev = {}): a dotted name n1...nk resolves, for the first a  *)
(* in <<owner, parent(owner), ..., root>> for which it exists, to the end  *)
(* of the chain a -> x1 -> ... -> xk with x(i+1) *contained* in xi and     *)
(* name(xi) = ni, provided xk conforms to the target class.                *)
(* Deviation clauses (what find_obj does: it walks every attribute in the  *)
(* object's __dict__, in order, `parent` last):                            *)
(*   FqnWalksRefs    a step may also go to the target of an already        *)
(*                   resolved non-containment reference of the object;     *)
(*   FqnWalksParent  a step may also go to the object's parent.            *)
(*   FqnFalsyTargetSkipped  a chain whose end object is falsy in Python     *)
(*                   counts as "not found" at that start object            *)
(*                   (_find_referenced_obj tests `if ret:`).               *)
(* References are resolved in textual order and loading stops at the first *)
(* one that cannot be resolved.                                            *)
(***************************************************************************)
EXTENDS Naturals, Sequences, FiniteSets, TLC

Obj(c, i) == c.objs[i]
Conf(c, i, T) == T = "OBJECT" \/ Obj(c, i).cls = T

\* <<o, parent(o), ..., root>>
RECURSIVE Outward(_, _)
Outward(c, o) == <<o>> \o (IF Obj(c, o).parent = 0 THEN <<>> ELSE Outward(c, Obj(c, o).parent))

\* what the reference attribute `attr` of object o holds once the first Len(res) references
\* have been resolved to res (textual order; a list attribute grows by appending)
RECURSIVE Held(_, _, _, _, _)
Held(c, o, attr, res, j) ==
  IF j > Len(res) THEN <<>>
  ELSE (IF c.refs[j].owner = o /\ c.refs[j].attr = attr /\ res[j] # 0 THEN <<res[j]>> ELSE <<>>)
       \o Held(c, o, attr, res, j + 1)

\* the objects one step away from o, in the order they are looked at
RECURSIVE Around(_, _, _, _, _)
Around(c, o, res, dev, j) ==
  LET as == Obj(c, o).attrs IN
  IF j > Len(as)
  THEN IF "FqnWalksParent" \in dev /\ Obj(c, o).parent # 0 THEN <<Obj(c, o).parent>> ELSE <<>>
  ELSE (IF as[j].k = "cont" THEN as[j].els
        ELSE IF "FqnWalksRefs" \in dev THEN Held(c, o, as[j].attr, res, 1) ELSE <<>>)
       \o Around(c, o, res, dev, j + 1)

First(c, s, n) ==
  LET I == {j \in 1..Len(s) : Obj(c, s[j]).named /\ Obj(c, s[j]).name = n}
  IN IF I = {} THEN 0 ELSE s[CHOOSE j \in I : \A m \in I : j <= m]

\* the object reached from a along the name parts, 0 if the chain breaks
RECURSIVE Chain(_, _, _, _, _, _)
Chain(c, a, parts, j, res, dev) ==
  IF j > Len(parts) THEN a
  ELSE LET x == First(c, Around(c, a, res, dev, 1), parts[j])
       IN IF x = 0 THEN 0 ELSE Chain(c, x, parts, j + 1, res, dev)

\* one reference, given the targets res of the references before it
Resolve(c, r, res, dev) ==
  LET out == Outward(c, r.owner)
      Hit(a) == LET t == Chain(c, a, r.parts, 1, res, dev)
                IN /\ t # 0 /\ Conf(c, t, r.cls)
                   /\ ("FqnFalsyTargetSkipped" \in dev => Obj(c, t).truthy)
      I == {j \in 1..Len(out) : Hit(out[j])}
  IN IF I = {} THEN 0
     ELSE Chain(c, out[CHOOSE j \in I : \A m \in I : j <= m], r.parts, 1, res, dev)

\* all references in textual order; the load stops at the first unresolvable one (its 0 is
\* the last entry of the result)
RECURSIVE ResolveFrom(_, _, _)
ResolveFrom(c, res, dev) ==
  IF Len(res) = Len(c.refs) THEN res
  ELSE LET t == Resolve(c, c.refs[Len(res) + 1], res, dev)
       IN IF t = 0 THEN Append(res, 0) ELSE ResolveFrom(c, Append(res, t), dev)

Expected(c, dev) == ResolveFrom(c, <<>>, dev)

----------------------------------------------------------------------------
\* The property, stated without the search: genuine chains through containment only.
Kids(c, o) == LET as == Obj(c, o).attrs
              IN UNION {{as[j].els[m] : m \in 1..Len(as[j].els)} : j \in {jj \in 1..Len(as) : as[jj].k = "cont"}}

\* the objects reached from the set S by one containment step per remaining name part, each
\* step to a contained object with that name (no order, no "first": a set of chain ends)
RECURSIVE Down(_, _, _, _)
Down(c, S, parts, j) ==
  IF j > Len(parts) THEN S
  ELSE Down(c, {x \in UNION {Kids(c, y) : y \in S} : Obj(c, x).named /\ Obj(c, x).name = parts[j]},
            parts, j + 1)

GenuineEnds(c, a, r) == {x \in Down(c, {a}, r.parts, 1) : Conf(c, x, r.cls)}

SiblingsUnique(c) ==
  \A o \in 1..Len(c.objs) : \A x, y \in Kids(c, o) :
     (Obj(c, x).named /\ Obj(c, y).named /\ Obj(c, x).name = Obj(c, y).name) => x = y

\* C10 for the j-th reference whose predecessors resolved to res
OnlyGenuine(c, j, t) ==                 \* never through parent links or references
  t # 0 => \E a \in {Outward(c, c.refs[j].owner)[m] : m \in 1..Len(Outward(c, c.refs[j].owner))} :
              t \in GenuineEnds(c, a, c.refs[j])
NearestGenuine(c, j, t) ==              \* exactly when a chain exists, and from the nearest start
  LET out == Outward(c, c.refs[j].owner)
      I   == {m \in 1..Len(out) : GenuineEnds(c, out[m], c.refs[j]) # {}}
  IN IF I = {} THEN t = 0
     ELSE t \in GenuineEnds(c, out[CHOOSE m \in I : \A mm \in I : m <= mm], c.refs[j])

C10Holds(c, dev) ==
  LET res == Expected(c, dev) IN
  SiblingsUnique(c) =>
    \A j \in 1..Len(res) : OnlyGenuine(c, j, res[j]) /\ NearestGenuine(c, j, res[j])
=============================================================================
