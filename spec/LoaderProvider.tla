---------------------------- MODULE LoaderProvider ----------------------------
(***************************************************************************)
(* C32: which scope provider ReferenceResolver.resolve_one_step uses for a  *)
(* reference (textx/model.py, the `attr_refs` lookup) and what              *)
(* TextXMetaModel.register_scope_providers stores.  Pure functions; the     *)
(* module is extended by LoaderResolve (the `provider` of TryRef).          *)
(***************************************************************************)
EXTENDS Naturals, Sequences, FiniteSets

CONSTANT Dev     \* deviation clauses switched on (documented semantics: {})

Range(s) == {s[i] : i \in 1..Len(s)}
Min(S) == CHOOSE x \in S : \A y \in S : x <= y

\* C32: which scope provider resolve_one_step uses for attribute `attr` of an
\* object of class `cls`.  `keys` = keys registered with register_scope_providers,
\* `g` = the grammar gives an RREL expression for this attribute.
KeyOrder(cls, attr) == << cls \o "." \o attr, "*." \o attr, cls \o ".*", "*.*" >>

Provider(keys, cls, attr, g) ==
  IF g THEN "grammar"
  ELSE LET ko   == KeyOrder(cls, attr)
           hits == {i \in 1..4 : ko[i] \in keys}
       IN IF hits = {} THEN "default" ELSE ko[Min(hits)]

\* Selection is by key membership only: what kind of object the registered provider is (a function, a
\* callable that happens to be falsy such as a dict-derived memoising provider with an empty cache, ..)
\* plays no role.

\* An attribute may be assigned several times in its rule (`a=[X] | 'k' a=[X|ID|rrel]`); occ[i] says whether
\* the i-th assignment carries an RREL expression.  The attribute has a grammar RREL if one is written for it.
\*   GrammarRrelLastAssignmentWins: what lang.py does -- every assignment overwrites the provider stored on
\*   the attribute, so only the LAST assignment counts (an RREL written on an earlier one is dropped)
HasGrammarRrel(occ) ==
  IF "GrammarRrelLastAssignmentWins" \in Dev THEN occ[Len(occ)] ELSE \E i \in 1..Len(occ) : occ[i]

\* register_scope_providers(sp): the given table REPLACES the one in force
\*   RegisterMerges (not observed in textX; non-vacuity of the sequence check): keys of earlier calls survive
RegAfter(old, new) == IF "RegisterMerges" \in Dev THEN old \cup new ELSE new
RECURSIVE TableAfter(_)
TableAfter(regs) == IF regs = <<>> THEN {} ELSE RegAfter(TableAfter(SubSeq(regs, 1, Len(regs) - 1)), regs[Len(regs)])

\* what a registered value / a grammar expression becomes: an RREL string given
\* to register_scope_providers is compiled like the expression in the grammar
\*   StringNotConverted: the string itself stays in the table (calling it fails)
Registered(v) ==
  IF v.kind = "string" /\ "StringNotConverted" \notin Dev THEN [kind |-> "rrel", expr |-> v.expr] ELSE v
GrammarRrel(e) == [kind |-> "rrel", expr |-> e]

\* the precedence theorem over a universe of rule and attribute names
Precedence(Rules, Attrs) ==
  LET AllKeys == {c \o "." \o a : c \in Rules \cup {"*"}, a \in Attrs \cup {"*"}}
      Rank(cls, attr, p) == CHOOSE i \in 1..4 : KeyOrder(cls, attr)[i] = p
  IN \A keys \in SUBSET AllKeys : \A cls \in Rules : \A attr \in Attrs : \A g \in BOOLEAN :
       LET p   == Provider(keys, cls, attr, g)
           app == keys \cap Range(KeyOrder(cls, attr))
       IN /\ (g <=> p = "grammar")
          /\ (~g => /\ p \in app \cup {"default"}
                    /\ (p = "default" <=> app = {})
                    /\ \A q \in app : Rank(cls, attr, p) <= Rank(cls, attr, q)
                    \* keys that do not apply to (cls, attr) never matter
                    /\ Provider(app, cls, attr, g) = p
                    \* a lower-ranked key never changes the choice
                    /\ \A q \in Range(KeyOrder(cls, attr)) :
                         (p # "default" /\ Rank(cls, attr, q) > Rank(cls, attr, p))
                            => Provider(keys \cup {q}, cls, attr, g) = p)
=============================================================================
