---------------------------- MODULE LoaderProvider ----------------------------
(***************************************************************************)
(* C32: which scope provider ReferenceResolver.resolve_one_step uses for a  *)
(* reference (textx/model.py, the `attr_refs` lookup) and what              *)
(* TextXMetaModel.register_scope_providers stores.  Pure functions; the     *)
(* module is extended by LoaderResolve (the `provider` of TryRef).          *)
(***************************************************************************)
EXTENDS Naturals, Sequences, FiniteSets

CONSTANT Dev     \* deviation clauses switched on (documented semantics: {})

Range(s) == {s[i] : i \in 1..Len(s)}
Min(S) == CHOOSE x \in S : \A y \in S : x <= y

\* C32: which scope provider resolve_one_step uses for attribute `attr` of an
\* object of class `cls`.  `keys` = keys registered with register_scope_providers,
\* `g` = the grammar gives an RREL expression for this attribute.
KeyOrder(cls, attr) == << cls \o "." \o attr, "*." \o attr, cls \o ".*", "*.*" >>

Provider(keys, cls, attr, g) ==
  IF g THEN "grammar"
  ELSE LET ko   == KeyOrder(cls, attr)
           hits == {i \in 1..4 : ko[i] \in keys}
       IN IF hits = {} THEN "default" ELSE ko[Min(hits)]

\* what a registered value / a grammar expression becomes: an RREL string given
\* to register_scope_providers is compiled like the expression in the grammar
\*   StringNotConverted: the string itself stays in the table (calling it fails)
Registered(v) ==
  IF v.kind = "string" /\ "StringNotConverted" \notin Dev THEN [kind |-> "rrel", expr |-> v.expr] ELSE v
GrammarRrel(e) == [kind |-> "rrel", expr |-> e]

\* the precedence theorem over a universe of rule and attribute names
Precedence(Rules, Attrs) ==
  LET AllKeys == {c \o "." \o a : c \in Rules \cup {"*"}, a \in Attrs \cup {"*"}}
      Rank(cls, attr, p) == CHOOSE i \in 1..4 : KeyOrder(cls, attr)[i] = p
  IN \A keys \in SUBSET AllKeys : \A cls \in Rules : \A attr \in Attrs : \A g \in BOOLEAN :
       LET p   == Provider(keys, cls, attr, g)
           app == keys \cap Range(KeyOrder(cls, attr))
       IN /\ (g <=> p = "grammar")
          /\ (~g => /\ p \in app \cup {"default"}
                    /\ (p = "default" <=> app = {})
                    /\ \A q \in app : Rank(cls, attr, p) <= Rank(cls, attr, q)
                    \* keys that do not apply to (cls, attr) never matter
                    /\ Provider(app, cls, attr, g) = p
                    \* a lower-ranked key never changes the choice
                    /\ \A q \in Range(KeyOrder(cls, attr)) :
                         (p # "default" /\ Rank(cls, attr, q) > Rank(cls, attr, p))
                            => Provider(keys \cup {q}, cls, attr, g) = p)
=============================================================================
