SPECIFICATION FullSpec
CONSTANTS
  Dev <- NoDev
INVARIANT C14_InitOnce
INVARIANT C14_InitWhen
INVARIANT C14_ProcAfterInit
INVARIANT C14_15_Clean
INVARIANT C14_Balanced
INVARIANT C15_NoRetention
INVARIANT C15_FollowFresh
CHECK_DEADLOCK FALSE
INVARIANT EmitScenario
