SPECIFICATION Spec
CONSTANTS
  Dev = {}
  MaxCross = 1
  GrpSlots = {}
  TClasses = {"Cls"}
INVARIANT C10
CHECK_DEADLOCK FALSE
