SPECIFICATION Spec
CONSTANTS
  Dev = {}
  MaxCross = 1
INVARIANT C10
CHECK_DEADLOCK FALSE
