--------------------------- MODULE TraceHistory ---------------------------
(* I->S: histories executed against the real textX (one interpreter), with  *)
(* the observed result of every call and the projected shared state after   *)
(* it, validated as behaviours of History!Next.  Many traces per TLC run:   *)
(* `tid` is chosen in TraceInit, `l` counts consumed events, register tid   *)
(* keeps the furthest l reached.  A trace is accepted iff all its events    *)
(* were consumed.  With IOEnv.VT_MODE = "expect" the logged results are not  *)
(* compared; instead the result and state the specification prescribes for  *)
(* every call are printed (used to explain a rejected trace and to replay).  *)
EXTENDS MC_History

\* The trace file is parsed once, into a TLC register (a definition that calls JsonDeserialize
\* would be evaluated again in every step).
ASSUME TLCSet(100000, JsonDeserialize(IOEnv.VT_TRACES))
Traces == TLCGet(100000)                       \* Seq of Seq of events
\* event = [name, slot, arg, inp, res |-> [kind, dig, ident],
\*          state |-> [gp, cache, scratch, dep, mms |-> Seq over slots of [cfg, dirty, instr, repo]]]
Expect == IOEnv.VT_MODE = "expect"

VARIABLES tid, l
tvars == <<vars, tid, l>>

ASSUME \A t \in 1..Len(Traces) : TLCSet(t, 0)

TraceInit == Init /\ tid \in 1..Len(Traces) /\ l = 0

Step(e) ==
  CASE e.name = "NewMM"     -> NewMM(e.slot, e.arg)
    [] e.name = "DropMM"    -> DropMM(e.slot)
    [] e.name = "WriteFile" -> WriteFile(e.arg, e.inp)
    [] e.name = "WriteDep"  -> WriteDep(e.arg, e.inp)
    [] e.name = "LoadStr"   -> LoadStr(e.slot, e.arg)
    [] e.name = "LoadFile"  -> LoadFile(e.slot, e.arg)
    [] OTHER -> FALSE

\* the projected implementation state equals the specification's state
StateMatches(st) ==
  /\ gp' = st.gp
  /\ (cache' = {}) <=> (st.cache = 0)
  /\ scratch' = st.scratch
  /\ \A g \in TDepG : dep'[g] = st.dep[g]
  /\ \A s \in TSlots :
       LET p == st.mms[s] IN
       /\ mms'[s].cfg = p.cfg
       /\ mms'[s].dirty = Range(p.dirty)
       /\ mms'[s].instr = p.instr
       /\ RepoFiles(mms'[s]) = Range(p.repo)

SpecState ==
  [gp |-> gp', cache |-> Cardinality(cache'), scratch |-> scratch', dep |-> [g \in TDepG \cup {"_"} |-> IF g = "_" THEN "good" ELSE dep'[g]],
   mms |-> [s \in TSlots |-> [cfg |-> mms'[s].cfg, dirty |-> mms'[s].dirty, instr |-> mms'[s].instr,
                             repo |-> RepoFiles(mms'[s])]]]

TraceNext ==
  /\ l < Len(Traces[tid])
  /\ LET e == Traces[tid][l + 1] IN
     /\ Step(e)
     /\ IF Expect
        THEN PrintT("EXP|" \o ToJson([tid |-> tid, step |-> l + 1, res |-> op'.res, state |-> SpecState]))
        ELSE /\ op'.res.kind = e.res.kind /\ op'.res.dig = e.res.dig /\ op'.res.ident = e.res.ident
             /\ StateMatches(e.state)
  /\ l' = l + 1 /\ tid' = tid

TraceSpec == TraceInit /\ [][TraceNext]_tvars

Progress == TLCSet(tid, IF l > TLCGet(tid) THEN l ELSE TLCGet(tid))

Report == \A t \in 1..Len(Traces) :
            PrintT("TRACE|" \o ToJson([tid |-> t, reached |-> TLCGet(t), len |-> Len(Traces[t])]))
=============================================================================
