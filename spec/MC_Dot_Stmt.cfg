SPECIFICATION DSpec
CONSTANTS
  Dev <- DevSet
INVARIANT DepthAgrees
INVARIANT AcceptBalanced
INVARIANT CountsSane
PROPERTY ErrSticky
CHECK_DEADLOCK FALSE
