SPECIFICATION Spec
CONSTANTS
  Scenarios <- JScenarios
  Dev <- MCDev
INVARIANT EmitSummary
CHECK_DEADLOCK FALSE
