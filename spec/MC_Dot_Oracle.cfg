SPECIFICATION OSpec
CONSTANTS
  Dev <- DevSet
CHECK_DEADLOCK FALSE
