------------------------------- MODULE Regex -------------------------------
(***************************************************************************)
(* Backtracking regular expressions over text as sequences of code points. *)
(*                                                                         *)
(* Ends(r, s, i) is the ORDERED sequence of positions at which a match of  *)
(* r that starts at offset i of s may end, in the order a backtracking     *)
(* matcher (Python `re`) tries them.  The match is the head of that        *)
(* sequence: Match(r, s, i).  A position is a number of consumed code      *)
(* points, 0..Len(s); the character at offset i is s[i+1].                 *)
(*                                                                         *)
(* Regex ASTs are records with a kind field k (never compared or put into  *)
(* sets, only dispatched on):                                              *)
(*   Eps | Chr(cs) | Cat(a,b) | Alt(a,b) | Opt(a) | Star(a) greedy |       *)
(*   LazyStar(a) | Look(a, pos) | Behind(cs, pos) | WordB | Bol | Eol      *)
(* A character set is [neg, cs]: the code points in cs, or all others.     *)
(***************************************************************************)
EXTENDS Naturals, Sequences, FiniteSets

NoMatch == 0 - 1

\* ---- character sets (ASCII classes; code points >= 128 are in no class) ----
Digit  == 48..57
UpperC == 65..90
LowerC == 97..122
Word   == Digit \cup UpperC \cup LowerC \cup {95}          \* \w
Space  == {9, 10, 13, 32}                                  \* textX default ws

In(cs)    == [neg |-> FALSE, cs |-> cs]
NotIn(cs) == [neg |-> TRUE,  cs |-> cs]
Member(c, x) == (c \in x.cs) # x.neg

\* ---- constructors ----
Eps          == [k |-> "eps"]
Chr(x)       == [k |-> "chr", x |-> x]
Cat(a, b)    == [k |-> "cat", a |-> a, b |-> b]
Alt(a, b)    == [k |-> "alt", a |-> a, b |-> b]
Opt(a)       == [k |-> "opt", a |-> a]
Star(a)      == [k |-> "star", a |-> a]
LazyStar(a)  == [k |-> "lazy", a |-> a]
Look(a, p)   == [k |-> "look", a |-> a, pos |-> p]       \* (?=a) / (?!a)
Behind(x, p) == [k |-> "behind", x |-> x, pos |-> p]     \* (?<=[x]) / (?<![x])
WordB        == [k |-> "wordb"]                          \* \b
Bol          == [k |-> "bol"]                            \* ^ (MULTILINE)
Eol          == [k |-> "eol"]                            \* $ (MULTILINE)

One(c)  == Chr(In({c}))
Plus(a) == Cat(a, Star(a))
RECURSIVE CatAll(_)
CatAll(rs) == IF rs = <<>> THEN Eps
              ELSE IF Len(rs) = 1 THEN rs[1] ELSE Cat(Head(rs), CatAll(Tail(rs)))
RECURSIVE AltAll(_)
AltAll(rs) == IF Len(rs) = 1 THEN rs[1] ELSE Alt(Head(rs), AltAll(Tail(rs)))
\* a literal word
Lit(w) == CatAll([i \in 1..Len(w) |-> One(w[i])])

\* ---- semantics ----
RECURSIVE Ends(_, _, _), Thread(_, _, _)

\* continue with r from every position of js, keeping the order
Thread(r, s, js) ==
  IF js = <<>> THEN <<>> ELSE Ends(r, s, Head(js)) \o Thread(r, s, Tail(js))

IsWordAt(s, i) == i >= 1 /\ i <= Len(s) /\ s[i] \in Word

Ends(r, s, i) ==
  CASE r.k = "eps"    -> <<i>>
    [] r.k = "chr"    -> IF i < Len(s) /\ Member(s[i + 1], r.x) THEN <<i + 1>> ELSE <<>>
    [] r.k = "cat"    -> Thread(r.b, s, Ends(r.a, s, i))
    [] r.k = "alt"    -> Ends(r.a, s, i) \o Ends(r.b, s, i)
    [] r.k = "opt"    -> Ends(r.a, s, i) \o <<i>>
    \* greedy: first one more iteration (an iteration must consume), then stop here
    [] r.k = "star"   -> Thread(r, s, SelectSeq(Ends(r.a, s, i), LAMBDA j : j > i)) \o <<i>>
    [] r.k = "lazy"   -> <<i>> \o Thread(r, s, SelectSeq(Ends(r.a, s, i), LAMBDA j : j > i))
    [] r.k = "look"   -> IF (Ends(r.a, s, i) # <<>>) = r.pos THEN <<i>> ELSE <<>>
    [] r.k = "behind" -> IF (i >= 1 /\ Member(s[i], r.x)) = r.pos THEN <<i>> ELSE <<>>
    [] r.k = "wordb"  -> IF IsWordAt(s, i) # IsWordAt(s, i + 1) THEN <<i>> ELSE <<>>
    [] r.k = "bol"    -> IF i = 0 \/ s[i] = 10 THEN <<i>> ELSE <<>>
    [] r.k = "eol"    -> IF i = Len(s) \/ s[i + 1] = 10 THEN <<i>> ELSE <<>>

\* the end of THE match of r at i (what re.compile(r).match(s, i).end() gives), or NoMatch
Match(r, s, i) == LET e == Ends(r, s, i) IN IF e = <<>> THEN NoMatch ELSE Head(e)

\* r matches exactly s[i+1..j]
FullMatch(r, s) == \E n \in 1..Len(Ends(r, s, 0)) : Ends(r, s, 0)[n] = Len(s)

Slice(s, i, j) == SubSeq(s, i + 1, j)         \* code points at offsets i..j-1
=============================================================================
