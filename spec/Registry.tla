------------------------------ MODULE Registry ------------------------------
(***************************************************************************)
(* textx/registration.py as a state machine (property C26).                *)
(*                                                                         *)
(* Two lazily loaded, case-insensitive maps (languages, generators) with a *)
(* layer of entry-point registrations that is re-installed after clear, a  *)
(* metamodel cache, and file-pattern lookup.  One action per public call;  *)
(* `op` records the call, its arguments and its result so that every edge  *)
(* of the state graph can be replayed against the implementation (S->I)    *)
(* and every recorded call can be validated against Next (I->S).           *)
(* Results are uniformly [ok, v] with v a sequence of strings, so that a     *)
(* logged result of the wrong shape is rejected instead of raising a TLC    *)
(* type error.                                                              *)
(***************************************************************************)
EXTENDS Naturals, Sequences, FiniteSets, TLC, Json

CONSTANTS
  Names,        \* language names the user may use (case variants), strings
  Lower,        \* [Names \cup EP names -> lower-case key]
  Patterns,     \* file patterns, strings; NoPat = registered without pattern
  Files,        \* file names asked for
  Match,        \* [file -> [pattern -> BOOLEAN]]  (fnmatch, or equality)
  EPLangs,      \* entry-point languages: sequence of [name, pat]
  EPGens,       \* entry-point generators: sequence of [lang, target]
  Targets,      \* generator target names (case variants)
  MaxFresh,     \* bound on factory-created metamodels (model checking only)
  Ops,          \* operation names enabled in this configuration
  Dev           \* deviation clauses switched on (documented semantics: {})

NoPat == "<none>"

VARIABLES
  lloaded,  \* BOOLEAN: languages dict initialised (entry points loaded)
  langs,    \* Seq of [key, name, pat, kind, inst]  in registration order
  gloaded,  \* BOOLEAN
  gens,     \* Seq of [lkey, tkey, lang, target]
  cache,    \* set of [key, mm]   metamodel cache
  fresh,    \* number of factory-created metamodels so far
  op        \* last call: [name, args, res]   (history; not part of the VIEW)

core == <<lloaded, langs, gloaded, gens, cache, fresh>>
vars == <<lloaded, langs, gloaded, gens, cache, fresh, op>>

Core == [lloaded |-> lloaded, langs |-> langs, gloaded |-> gloaded, gens |-> gens,
         cache |-> cache, fresh |-> fresh]

----------------------------------------------------------------------------
Range(s) == {s[i] : i \in 1..Len(s)}
Keys(ls) == {ls[i].key : i \in 1..Len(ls)}
Find(ls, k) == ls[CHOOSE i \in 1..Len(ls) : ls[i].key = k]

\* what language_descriptions() makes of the entry points
EPLoaded == [i \in 1..Len(EPLangs) |->
               [key |-> Lower[EPLangs[i].name], name |-> EPLangs[i].name, pat |-> EPLangs[i].pat,
                kind |-> "factory", inst |-> "-"]]
EPGLoaded == [i \in 1..Len(EPGens) |->
               [lkey |-> Lower[EPGens[i].lang], tkey |-> Lower[EPGens[i].target],
                lang |-> EPGens[i].lang, target |-> EPGens[i].target]]

\* the dict after lazy initialisation
LangsNow == IF lloaded THEN langs ELSE EPLoaded
GensNow  == IF gloaded THEN gens ELSE EPGLoaded

Ok(v)  == [ok |-> TRUE, v |-> v]
Err(k) == [ok |-> FALSE, v |-> <<k>>]
RegErr == Err("TextXRegistrationError")

Desc(d) == <<d.name, d.pat>>

Matching(ls, f) == SelectSeq(ls, LAMBDA d : d.pat # NoPat /\ Match[f][d.pat])
HasNoPat(ls) == \E i \in 1..Len(ls) : ls[i].pat = NoPat

CacheKeys == {c.key : c \in cache}
CacheGet(k) == (CHOOSE c \in cache : c.key = k).mm
CachePut(k, m) == {c \in cache : c.key # k} \cup {[key |-> k, mm |-> m]}

----------------------------------------------------------------------------
Init == /\ lloaded = FALSE /\ langs = <<>> /\ gloaded = FALSE /\ gens = <<>>
        /\ cache = {} /\ fresh = 0
        /\ op = [name |-> "init", args |-> <<>>, res |-> Ok(<<"-">>)]

Rec(n, a, r) == op' = [name |-> n, args |-> a, res |-> r]

\* register_language(name, pattern, metamodel = instance | factory)
RegisterLanguage(n, p, kd) ==
  /\ "RegisterLanguage" \in Ops
  /\ LET ls == LangsNow
         k  == IF "NoLowerOnRegister" \in Dev THEN n ELSE Lower[n]
     IN /\ lloaded' = TRUE
        /\ IF k \in Keys(ls)
           THEN /\ langs' = ls /\ Rec("RegisterLanguage", <<n, p, kd>>, RegErr)
           ELSE /\ langs' = Append(ls, [key |-> k, name |-> n, pat |-> p, kind |-> kd,
                                        inst |-> IF kd = "instance" THEN n ELSE "-"])
                /\ Rec("RegisterLanguage", <<n, p, kd>>, Ok(<<"-">>))
  /\ UNCHANGED <<gloaded, gens, cache, fresh>>

\* language_description(name)
DescribeLanguage(n) ==
  /\ "DescribeLanguage" \in Ops
  /\ LET ls == LangsNow IN
     /\ lloaded' = TRUE /\ langs' = ls
     /\ Rec("DescribeLanguage", <<n>>,
            IF Lower[n] \in Keys(ls) THEN Ok(Desc(Find(ls, Lower[n]))) ELSE RegErr)
  /\ UNCHANGED <<gloaded, gens, cache, fresh>>

\* language_descriptions()
ListLanguages ==
  /\ "ListLanguages" \in Ops
  /\ LET ls == LangsNow IN
     /\ lloaded' = TRUE /\ langs' = ls
     /\ Rec("ListLanguages", <<>>, Ok([i \in 1..Len(ls) |-> ls[i].key]))
  /\ UNCHANGED <<gloaded, gens, cache, fresh>>

\* clear_language_registrations(): entry points come back lazily, cache dropped
ClearLanguages ==
  /\ "ClearLanguages" \in Ops
  /\ lloaded' = FALSE /\ langs' = <<>>
  /\ cache' = IF "ClearKeepsCache" \in Dev THEN cache ELSE {}
  /\ Rec("ClearLanguages", <<>>, Ok(<<"-">>))
  /\ UNCHANGED <<gloaded, gens, fresh>>

\* metamodel_for_language(name, **kwargs)
\*   without kwargs: cached instance if any; otherwise (or with kwargs) the
\*   registered instance, or a fresh instance from the factory, then cached.
\*   bad: the factory refuses these kwargs (raises); a failed request leaves the
\*   cache as it was, so the next request without arguments still gets the cached instance.
MetamodelFor(n, kw, bad) ==
  /\ "MetamodelFor" \in Ops
  /\ bad => kw
  /\ LET k == Lower[n] IN
     IF k \in CacheKeys /\ ~kw
     THEN /\ Rec("MetamodelFor", <<n, kw, bad>>, Ok(CacheGet(k)))
          /\ UNCHANGED <<lloaded, langs, cache, fresh>>
     ELSE LET ls == LangsNow IN
          /\ lloaded' = TRUE /\ langs' = ls
          /\ IF k \notin Keys(ls)
             THEN /\ Rec("MetamodelFor", <<n, kw, bad>>, RegErr) /\ UNCHANGED <<cache, fresh>>
             ELSE LET d == Find(ls, k) IN
                  IF d.kind = "instance"
                  THEN /\ cache' = CachePut(k, <<"inst", d.inst>>) /\ fresh' = fresh
                       /\ Rec("MetamodelFor", <<n, kw, bad>>, Ok(<<"inst", d.inst>>))
                  ELSE IF bad
                  THEN /\ Rec("MetamodelFor", <<n, kw, bad>>, Err("TypeError"))
                       /\ cache' = (IF "FailedRequestEvicts" \in Dev THEN {c \in cache : c.key # k} ELSE cache)
                       /\ fresh' = fresh
                  ELSE /\ fresh' = fresh + 1
                       /\ cache' = CachePut(k, <<"fresh", ToString(fresh + 1)>>)
                       /\ Rec("MetamodelFor", <<n, kw, bad>>, Ok(<<"fresh", ToString(fresh + 1)>>))
  /\ UNCHANGED <<gloaded, gens>>

\* languages_for_file(f): the languages whose pattern matches, registration order
LanguagesForFile(f) ==
  /\ "LanguagesForFile" \in Ops
  /\ LET ls == LangsNow IN
     /\ lloaded' = TRUE /\ langs' = ls
     /\ Rec("LanguagesForFile", <<f>>,
            IF "NoPatternRaises" \in Dev /\ HasNoPat(ls) THEN Err("TypeError")
            ELSE LET ms == Matching(ls, f) IN Ok([i \in 1..Len(ms) |-> ms[i].key]))
  /\ UNCHANGED <<gloaded, gens, cache, fresh>>

\* language_for_file(f): fails unless exactly one language matches
LanguageForFile(f) ==
  /\ "LanguageForFile" \in Ops
  /\ LET ls == LangsNow
         ms == Matching(ls, f)
     IN /\ lloaded' = TRUE /\ langs' = ls
        /\ Rec("LanguageForFile", <<f>>,
               IF "NoPatternRaises" \in Dev /\ HasNoPat(ls) THEN Err("TypeError")
               ELSE IF Len(ms) = 1 THEN Ok(<<ms[1].key>>)
               ELSE IF "FirstOfSeveral" \in Dev /\ Len(ms) > 1 THEN Ok(<<ms[1].key>>)
               ELSE RegErr)
  /\ UNCHANGED <<gloaded, gens, cache, fresh>>

\* register_generator(language, target)
RegisterGenerator(l, t) ==
  /\ "RegisterGenerator" \in Ops
  /\ LET gs == GensNow IN
     /\ gloaded' = TRUE
     /\ IF \E i \in 1..Len(gs) : gs[i].lkey = Lower[l] /\ gs[i].tkey = Lower[t]
        THEN /\ gens' = gs /\ Rec("RegisterGenerator", <<l, t>>, RegErr)
        ELSE /\ gens' = Append(gs, [lkey |-> Lower[l], tkey |-> Lower[t], lang |-> l, target |-> t])
             /\ Rec("RegisterGenerator", <<l, t>>, Ok(<<"-">>))
  /\ UNCHANGED <<lloaded, langs, cache, fresh>>

GenFind(gs, lk, tk) == LET I == {i \in 1..Len(gs) : gs[i].lkey = lk /\ gs[i].tkey = tk}
                       IN IF I = {} THEN 0 ELSE CHOOSE i \in I : TRUE

\* generator_description(language, target, any_permitted)
DescribeGenerator(l, t, anyp) ==
  /\ "DescribeGenerator" \in Ops
  /\ LET gs == GensNow
         i  == GenFind(gs, Lower[l], Lower[t])
         j  == GenFind(gs, "any", Lower[t])
     IN /\ gloaded' = TRUE /\ gens' = gs
        /\ Rec("DescribeGenerator", <<l, t, anyp>>,
               IF i # 0 THEN Ok(<<gs[i].lang, gs[i].target>>)
               ELSE IF anyp /\ j # 0 THEN Ok(<<gs[j].lang, gs[j].target>>)
               ELSE RegErr)
  /\ UNCHANGED <<lloaded, langs, cache, fresh>>

ClearGenerators ==
  /\ "ClearGenerators" \in Ops
  /\ gloaded' = FALSE /\ gens' = <<>>
  /\ Rec("ClearGenerators", <<>>, Ok(<<"-">>))
  /\ UNCHANGED <<lloaded, langs, cache, fresh>>

PatOrNone == Patterns \cup {NoPat}

Next ==
  \/ \E n \in Names, p \in PatOrNone, kd \in {"instance", "factory"} : RegisterLanguage(n, p, kd)
  \/ \E n \in Names : DescribeLanguage(n)
  \/ ListLanguages
  \/ ClearLanguages
  \/ \E n \in Names, kw \in BOOLEAN, bad \in BOOLEAN : MetamodelFor(n, kw, bad)
  \/ \E f \in Files : LanguagesForFile(f)
  \/ \E f \in Files : LanguageForFile(f)
  \/ \E l \in Names \cup {"any"}, t \in Targets : RegisterGenerator(l, t)
  \/ \E l \in Names \cup {"any"}, t \in Targets, a \in BOOLEAN : DescribeGenerator(l, t, a)
  \/ ClearGenerators

Spec == Init /\ [][Next]_vars

----------------------------------------------------------------------------
\* Properties (C26)

\* keys are lower-case, unique, and every entry sits under the key of its name
KeysLowerUnique ==
  /\ \A i \in 1..Len(langs) : langs[i].key = Lower[langs[i].name]
  /\ \A i, j \in 1..Len(langs) : langs[i].key = langs[j].key => i = j
  /\ \A i, j \in 1..Len(gens) : (gens[i].lkey = gens[j].lkey /\ gens[i].tkey = gens[j].tkey) => i = j
  /\ \A i \in 1..Len(gens) : gens[i].lkey = Lower[gens[i].lang] /\ gens[i].tkey = Lower[gens[i].target]

\* entry-point registrations are always visible: they survive clearing
EntryPointsSurvive ==
  /\ \A i \in 1..Len(EPLoaded) : EPLoaded[i].key \in Keys(LangsNow)
  /\ \A i \in 1..Len(EPGLoaded) : GenFind(GensNow, EPGLoaded[i].lkey, EPGLoaded[i].tkey) # 0

\* the cache only holds metamodels of registered languages, and an
\* instance-registered language is cached as exactly that instance
CacheCoherent ==
  /\ \A c \in cache : c.key \in Keys(LangsNow)
  /\ \A c \in cache : LET d == Find(LangsNow, c.key) IN
                        d.kind = "instance" => c.mm = <<"inst", d.inst>>
  /\ \A c, d \in cache : c.key = d.key => c = d

\* a successful registration refuses nothing that was free and a refused one changes nothing
RefuseDuplicates ==
  [][op'.name = "RegisterLanguage" =>
       (op'.res.ok <=> Lower[op'.args[1]] \notin Keys(LangsNow))
       /\ (~op'.res.ok => LangsNow' = LangsNow)]_vars

\* language_for_file succeeds exactly when one language matches
ForFileExactlyOne ==
  [][op'.name = "LanguageForFile" =>
       (op'.res.ok <=> Len(Matching(LangsNow, op'.args[1])) = 1)]_vars

\* without arguments a cached metamodel is returned as is; with arguments a
\* factory language yields a fresh instance that is then the cached one
CachedOrFresh ==
  [][op'.name = "MetamodelFor" /\ op'.res.ok =>
       LET k == Lower[op'.args[1]] IN
       /\ (~op'.args[2] /\ k \in CacheKeys => op'.res.v = CacheGet(k) /\ cache' = cache)
       /\ (op'.args[2] /\ Find(LangsNow, k).kind = "factory"
             => op'.res.v = <<"fresh", ToString(fresh + 1)>> /\ fresh' = fresh + 1)
       /\ [key |-> k, mm |-> op'.res.v] \in cache']_vars

\* a request that fails leaves the cache alone (the cached instance stays "the cached instance")
FailedRequestKeepsCache ==
  [][op'.name = "MetamodelFor" /\ ~op'.res.ok => cache' = cache /\ fresh' = fresh]_vars

Bound == fresh <= MaxFresh /\ Len(langs) <= Len(EPLangs) + 2 /\ Len(gens) <= Len(EPGens) + 2

\* every edge with its parameters, for replay against the implementation
EmitEdge == PrintT("EDGE|" \o ToJson([from |-> Core, op |-> op', to |-> Core']))
=============================================================================
