SPECIFICATION JSpec
CONSTANTS
  Dev = {}
INVARIANT EmitSummary
CHECK_DEADLOCK FALSE
