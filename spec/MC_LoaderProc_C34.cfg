SPECIFICATION Spec
CONSTANTS
  Meta <- CarrierMeta
  Scenarios <- MCScenarios
  Dev <- EnvDev
  Family <- EnvFamily
  MaxObjs <- EnvMaxObjs
  MaxFiles <- EnvMaxFiles
  MaxRefs <- EnvMaxRefs
  MaxPostpone <- EnvMaxPostpone
INVARIANT ScenarioOK
INVARIANT C34_XrefSorted
INVARIANT C34_XrefOnce
INVARIANT C34_XrefExact
INVARIANT C34_DictInnermost
INVARIANT C34_DictInnerFirst
INVARIANT C34_DictByStart
INVARIANT C34_Functions
CONSTRAINT EmitInit
CHECK_DEADLOCK FALSE
