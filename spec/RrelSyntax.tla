---------------------------- MODULE RrelSyntax ----------------------------
(***************************************************************************)
(* RREL expressions (docs/src/rrel.md, textx/scoping/rrel.py) as abstract  *)
(* syntax, their concrete text, the parser, and the normal form in which   *)
(* two expressions have "the same structure and the same flags"            *)
(* (property C12).                                                         *)
(*                                                                         *)
(*   Expr  [flags, seq]          flags: the letters between `+` and `:`    *)
(*   seq   <<path, ...>>         alternatives separated by `,`             *)
(*   path  [lead, els]           lead: none | hat (`^`) | dots n (`.`*n);  *)
(*                               els: elements separated by `.`            *)
(*   elem  nav   [mode, attr, fixed, q]   `a` | `~a` | `'f'~a`             *)
(*                               (q = quote written, 0 = printer chooses)  *)
(*         par   [type]                   `parent(T)`                      *)
(*         br    [seq]                    `( ... )`                        *)
(*         star  [e]                      `e*`, e not a star               *)
(*                                                                         *)
(* Normal form: `^` is the element `(..)*` put in front of the path, `e*`  *)
(* with e not bracketed is `(e)*`, the quote of a fixed name is forgotten, *)
(* flags are the set of letters.  Text is a sequence of code points.       *)
(*                                                                         *)
(* Deviation clauses (sets D / constant Dev; {} = the property):           *)
(*   "ProxyFlagNotPrinted"    flags are printed only when they contain `m` *)
(*   "FixedNameSingleQuoted"  a fixed name is always printed between '..'  *)
(***************************************************************************)
EXTENDS Regex

CONSTANT Dev

LP == 40   RP == 41   STAR == 42   PLUS == 43   COMMA == 44   DOT == 46   COLON == 58
HAT == 94  TILDE == 126   SQ == 39   DQ == 34   BSL == 92   LM == 109   LPp == 112
ParentW == <<112, 97, 114, 101, 110, 116>>

\* ------------------------------------------------------------ constructors
None     == [k |-> "none"]
Hat      == [k |-> "hat"]
Dots(n)  == [k |-> "dots", n |-> n]
Nav(mode, attr, fixed, q) == [k |-> "nav", mode |-> mode, attr |-> attr, fixed |-> fixed, q |-> q]
Par(t)   == [k |-> "par", type |-> t]
Br(sq)   == [k |-> "br", seq |-> sq]
St(e)    == [k |-> "star", e |-> e]
Path(lead, els) == [lead |-> lead, els |-> els]
Expr(flags, sq) == [flags |-> flags, seq |-> sq]

Range(f) == {f[i] : i \in DOMAIN f}

\* -------------------------------------------------------------- normal form
RECURSIVE NormElem(_), NormPath(_), NormSeq(_)
UpStar == St(Br(<<Path(Dots(2), <<>>)>>))                     \* (..)*
NormElem(e) ==
  CASE e.k = "nav"  -> Nav(e.mode, e.attr, e.fixed, 0)
    [] e.k = "par"  -> e
    [] e.k = "br"   -> Br(NormSeq(e.seq))
    [] e.k = "star" -> IF e.e.k = "br" THEN St(NormElem(e.e))
                       ELSE St(Br(<<Path(None, <<NormElem(e.e)>>)>>))
NormPath(p) ==
  LET els == IF p.els = <<>> THEN <<>> ELSE [i \in 1..Len(p.els) |-> NormElem(p.els[i])]
  IN IF p.lead.k = "hat" THEN Path(None, <<UpStar>> \o els) ELSE Path(p.lead, els)
NormSeq(sq) == [i \in 1..Len(sq) |-> NormPath(sq[i])]
NormFlags(f) == (IF LM \in Range(f) THEN <<LM>> ELSE <<>>) \o (IF LPp \in Range(f) THEN <<LPp>> ELSE <<>>)
Norm(t) == Expr(NormFlags(t.flags), NormSeq(t.seq))

\* --------------------------------------------------------------- lexical
\* rrel_id  [^\d\W]\w*\b  is Unicode aware.  Outside ASCII the module knows the class of the
\* code points of this table only (the harness checks the table against Python's `re` before it
\* uses any of them); every other non-ASCII code point is outside the fragment.
UniLetters == {233, 201, 246, 252, 223, 937, 969, 1103, 1046, 20013}   \* e' E' o" u" sz Omega omega ya Zhe zhong
UniDigits  == {1635, 2409}                         \* ARABIC-INDIC THREE, DEVANAGARI THREE: \d and \w
IdChar   == Word \cup UniLetters \cup UniDigits                                  \* \w
IdStart  == (Word \ Digit) \cup UniLetters                                      \* [^\d\W]
\* after a word character, \b holds exactly when no word character follows
IdRe     == CatAll(<<Chr(In(IdStart)), Star(Chr(In(IdChar))), Look(Chr(In(IdChar)), FALSE)>>)
StrRe(q) == CatAll(<<One(q), Star(Alt(Cat(One(BSL), One(q)), Chr(NotIn({q})))), One(q)>>)
FlagsRe  == CatAll(<<One(PLUS), Plus(Chr(In({LM, LPp}))), One(COLON)>>)            \* \+[mp]+:
DotsRe   == Plus(One(DOT))                                                         \* \.+

\* ------------------------------------------------------------------ printing
\* a printed expression is a sequence of tokens; PrintD glues them, PrintSpD puts
\* a blank between any two (white space between tokens is insignificant)
RECURSIVE Glue(_, _)
Glue(ts, sep) == IF ts = <<>> THEN <<>> ELSE IF Len(ts) = 1 THEN ts[1]
                 ELSE ts[1] \o sep \o Glue(Tail(ts), sep)
RECURSIVE Sepd(_, _)         \* token lists joined by a separator token
Sepd(tss, sepTok) == IF Len(tss) = 1 THEN tss[1] ELSE tss[1] \o <<sepTok>> \o Sepd(Tail(tss), sepTok)

\* the quote a fixed name is printed with: the one written, else one it can be read back from
QuoteOf(e, D) ==
  IF e.q # 0 THEN e.q
  ELSE IF "FixedNameSingleQuoted" \in D THEN SQ
  ELSE IF FullMatch(StrRe(SQ), <<SQ>> \o e.fixed \o <<SQ>>) THEN SQ ELSE DQ

RECURSIVE ElemToks(_, _), PathToks(_, _), SeqToks(_, _)
ElemToks(e, D) ==
  CASE e.k = "nav"  -> (CASE e.mode = "name"  -> <<e.attr>>
                          [] e.mode = "multi" -> <<<<TILDE>>, e.attr>>
                          [] e.mode = "fixed" -> <<<<QuoteOf(e, D)>> \o e.fixed \o <<QuoteOf(e, D)>>,
                                                   <<TILDE>>, e.attr>>)
    [] e.k = "par"  -> <<ParentW, <<LP>>, e.type, <<RP>>>>
    [] e.k = "br"   -> <<<<LP>>>> \o SeqToks(e.seq, D) \o <<<<RP>>>>
    [] e.k = "star" -> ElemToks(e.e, D) \o <<<<STAR>>>>
LeadToks(l) == CASE l.k = "none" -> <<>>
                 [] l.k = "hat"  -> <<<<HAT>>>>
                 [] l.k = "dots" -> <<[i \in 1..l.n |-> DOT]>>
PathToks(p, D) ==
  LeadToks(p.lead) \o (IF p.els = <<>> THEN <<>>
                       ELSE Sepd([i \in 1..Len(p.els) |-> ElemToks(p.els[i], D)], <<DOT>>))
SeqToks(sq, D) == Sepd([i \in 1..Len(sq) |-> PathToks(sq[i], D)], <<COMMA>>)
FlagToks(f, D) ==
  IF f = <<>> \/ ("ProxyFlagNotPrinted" \in D /\ LM \notin Range(f)) THEN <<>>
  ELSE <<<<PLUS>> \o f \o <<COLON>>>>
ExprToks(t, D) == FlagToks(t.flags, D) \o SeqToks(t.seq, D)

PrintD(t, D)   == Glue(ExprToks(t, D), <<>>)
PrintSpD(t, D) == Glue(ExprToks(t, D), <<32>>)
\* what printing an expression object gives (the implementation holds the normal form)
Shown(t) == PrintD(Norm(t), Dev)

\* ------------------------------------------------------------------- parsing
\* PEG with white space skipped before every token.  A result is [ok, pos, v].
Bad        == [ok |-> FALSE, pos |-> 0, v |-> <<>>]
Got(p, v)  == [ok |-> TRUE, pos |-> p, v |-> v]

RECURSIVE Sk(_, _)
Sk(s, i) == IF i < Len(s) /\ s[i + 1] \in Space THEN Sk(s, i + 1) ELSE i
HasAt(s, j, w) == j + Len(w) <= Len(s) /\ SubSeq(s, j + 1, j + Len(w)) = w
\* the literal w as next token: position after it, or NoMatch
Tok(s, i, w) == LET j == Sk(s, i) IN IF HasAt(s, j, w) THEN j + Len(w) ELSE NoMatch
\* a regular-expression token: [ok, pos, v |-> matched text]
ReTok(s, i, re) == LET j == Sk(s, i)
                       e == Match(re, s, j)
                   IN IF e = NoMatch THEN Bad ELSE Got(e, Slice(s, j, e))
PId(s, i) == ReTok(s, i, IdRe)
\* string_value: '...' tried before "..."; the value is the raw text between the quotes
PStr(s, i) == LET a == ReTok(s, i, StrRe(SQ))
                  b == ReTok(s, i, StrRe(DQ))
              IN IF a.ok THEN Got(a.pos, [q |-> SQ, raw |-> SubSeq(a.v, 2, Len(a.v) - 1)])
                 ELSE IF b.ok THEN Got(b.pos, [q |-> DQ, raw |-> SubSeq(b.v, 2, Len(b.v) - 1)])
                 ELSE Bad

\* navigation:  '~'? id  /  string? '~' id
PNav(s, i) ==
  LET t1  == Tok(s, i, <<TILDE>>)
      id1 == PId(s, IF t1 = NoMatch THEN i ELSE t1)
  IN IF id1.ok THEN Got(id1.pos, Nav(IF t1 = NoMatch THEN "name" ELSE "multi", id1.v, <<>>, 0))
     ELSE LET st  == PStr(s, i)
              t2  == Tok(s, IF st.ok THEN st.pos ELSE i, <<TILDE>>)
              id2 == PId(s, t2)
          IN IF t2 # NoMatch /\ id2.ok
             THEN (IF st.ok THEN Got(id2.pos, Nav("fixed", id2.v, st.v.raw, st.v.q))
                   ELSE Got(id2.pos, Nav("multi", id2.v, <<>>, 0)))
             ELSE Bad

RECURSIVE PElem(_, _), PPath(_, _), PMoreEls(_, _, _), PSeq(_, _), PMorePaths(_, _, _)

\* parent: 'parent' '(' id ')'
PPar(s, i) ==
  LET a == Tok(s, i, ParentW)
      b == Tok(s, a, <<LP>>)
      t == PId(s, b)
      c == Tok(s, t.pos, <<RP>>)
  IN IF a # NoMatch /\ b # NoMatch /\ t.ok /\ c # NoMatch THEN Got(c, Par(t.v)) ELSE Bad
\* brackets: '(' sequence ')'
PBr(s, i) ==
  LET a == Tok(s, i, <<LP>>)
      q == PSeq(s, a)
      c == Tok(s, q.pos, <<RP>>)
  IN IF a # NoMatch /\ q.ok /\ c # NoMatch THEN Got(c, Br(q.v)) ELSE Bad
\* path element: parent / brackets / navigation, then an optional '*'
PElem(s, i) ==
  LET p == PPar(s, i)
      b == PBr(s, i)
      n == PNav(s, i)
      e == IF p.ok THEN p ELSE IF b.ok THEN b ELSE n
      x == Tok(s, e.pos, <<STAR>>)
  IN IF ~e.ok THEN Bad ELSE IF x = NoMatch THEN e ELSE Got(x, St(e.v))
\* ('.' element)*
PMoreEls(s, i, acc) ==
  LET d == Tok(s, i, <<DOT>>)
      e == PElem(s, d)
  IN IF d # NoMatch /\ e.ok THEN PMoreEls(s, e.pos, Append(acc, e.v)) ELSE Got(i, acc)
\* path: lead? element ('.' element)*  /  lead        lead: '^' / dots
PPath(s, i) ==
  LET h    == Tok(s, i, <<HAT>>)
      ds   == ReTok(s, i, DotsRe)
      lead == IF h # NoMatch THEN Hat ELSE IF ds.ok THEN Dots(Len(ds.v)) ELSE None
      j    == IF h # NoMatch THEN h ELSE IF ds.ok THEN ds.pos ELSE i
      e    == PElem(s, j)
      more == PMoreEls(s, e.pos, <<e.v>>)
  IN IF e.ok THEN Got(more.pos, Path(lead, more.v))
     ELSE IF lead.k # "none" THEN Got(j, Path(lead, <<>>))
     ELSE Bad
\* sequence: path (',' path)*
PMorePaths(s, i, acc) ==
  LET c == Tok(s, i, <<COMMA>>)
      p == PPath(s, c)
  IN IF c # NoMatch /\ p.ok THEN PMorePaths(s, p.pos, Append(acc, p.v)) ELSE Got(i, acc)
PSeq(s, i) ==
  LET p == PPath(s, i)
  IN IF p.ok THEN PMorePaths(s, p.pos, <<p.v>>) ELSE Bad
\* expression: flags? sequence EOF
Parse(s) ==
  LET f == ReTok(s, 0, FlagsRe)
      q == PSeq(s, IF f.ok THEN f.pos ELSE 0)
  IN IF q.ok /\ Sk(s, q.pos) = Len(s)
     THEN Got(Len(s), Expr(IF f.ok THEN SubSeq(f.v, 2, Len(f.v) - 1) ELSE <<>>, q.v))
     ELSE Bad

\* what reading a text gives, as a sequence with the normal form or nothing
ReadNorm(s) == LET r == Parse(s) IN IF r.ok THEN <<Norm(r.v)>> ELSE <<>>

\* ----------------------------------------------------------------- property
\* C12: the printed form of (the normal form of) t reads back as the same normal form
RoundTripOf(t, D) == ReadNorm(PrintD(Norm(t), D)) = <<Norm(t)>>
\* what re-reading gives under deviation set D, given that the property holds for t without deviations
ReReadUnder(t, D) == IF PrintD(Norm(t), D) = PrintD(Norm(t), {}) THEN <<Norm(t)>>
                     ELSE ReadNorm(PrintD(Norm(t), D))
=============================================================================
