SPECIFICATION GenSpec
CONSTANTS
  Dev <- DevSet
INVARIANT TypeOK
INVARIANT StackNoDup
INVARIANT Terminates
ACTION_CONSTRAINT EmitCase
