SPECIFICATION Spec
CONSTANTS
  MM <- MM5
  Dev <- EnvDev
  MaxN = 6
  MaxNamed = 6
  MaxUnnamed = 0
  MaxRefs = 2
  Names <- NoNames
  Sorted = FALSE
  FullN = 4
  Builtins <- NoBuiltins
INVARIANT TWellFormed
INVARIANT TParentChain
INVARIANT TParentOfType
INVARIANT TChildren
INVARIANT TNoRefs
INVARIANT TOfType
CHECK_DEADLOCK FALSE
