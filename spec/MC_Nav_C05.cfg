SPECIFICATION Spec
CONSTANTS
  MM <- EnvMM
  Dev <- EnvDev
  MaxN <- EnvMaxN
  MaxNamed <- EnvMaxNamed
  MaxUnnamed <- EnvMaxUn
  MaxRefs <- EnvMaxRefs
  Names <- EnvNames
  Sorted <- EnvSorted
  FullN <- EnvFullN
  Builtins <- NoBuiltins
INVARIANT TWellFormed
INVARIANT TParentChain
INVARIANT TParentOfType
INVARIANT TChildren
INVARIANT TNoRefs
INVARIANT TOfType
CHECK_DEADLOCK FALSE
