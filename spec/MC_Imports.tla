----------------------------- MODULE MC_Imports -----------------------------
(* Case sources for Imports.tla:                                            *)
(*   * enumeration of every import graph over a small universe of files     *)
(*     (VT_UNIV names the universe, VT_NAMES the overlapping rule names);   *)
(*   * skeletons (paths, imports, rules) read from a JSON file (VT_CASES),  *)
(*     completed with references by the same Build operator.                *)
(* Each case is loaded by Imports!Next; the final step prints the case and  *)
(* the outcome an observer of the meta-model must see.                      *)
EXTENDS Imports, IOUtils, Json

\* ---- universes: paths below the directory of the main grammar, main first
Universe ==
  CASE IOEnv.VT_UNIV = "m"      -> << <<"m">> >>
    [] IOEnv.VT_UNIV = "mf"     -> << <<"m">>, <<"f">> >>
    [] IOEnv.VT_UNIV = "mfe"    -> << <<"m">>, <<"f">>, <<"e">> >>
    [] IOEnv.VT_UNIV = "mfg"    -> << <<"m">>, <<"f">>, <<"d", "g">> >>
    [] IOEnv.VT_UNIV = "mgh"    -> << <<"m">>, <<"d", "g">>, <<"d", "h">> >>
    [] IOEnv.VT_UNIV = "mfgh"   -> << <<"m">>, <<"f">>, <<"d", "g">>, <<"d", "h">> >>
    [] IOEnv.VT_UNIV = "mfeg"   -> << <<"m">>, <<"f">>, <<"e">>, <<"d", "g">> >>
    [] IOEnv.VT_UNIV = "mfgk"   -> << <<"m">>, <<"f">>, <<"d", "g">>, <<"d", "e", "k">> >>
    [] OTHER                    -> << <<"m">> >>
U == Universe
NU == Len(U)
Names == IF IOEnv.VT_NAMES = "AB" THEN {"A", "B"}
         ELSE IF IOEnv.VT_NAMES = "A" THEN {"A"} ELSE {"A", "B", "C"}
NameSeq == IF IOEnv.VT_NAMES = "AB" THEN <<"A", "B">>
           ELSE IF IOEnv.VT_NAMES = "A" THEN <<"A">> ELSE <<"A", "B", "C">>
MaxImp == IF IOEnv.VT_MAXIMP = "3" THEN 3 ELSE 2
DevSet == IF IOEnv.VT_DEV = "" THEN {} ELSE {IOEnv.VT_DEV}
Emit == IOEnv.VT_EMIT = "1"

IsPrefix(a, b) == Len(a) <= Len(b) /\ SubSeq(b, 1, Len(a)) = a
\* file j can be named by an import statement of file i: it lives in i's directory or below
Importable(i, j) == i # j /\ IsPrefix(Dir(U[i]), Dir(U[j]))
Rel(i, j) == SubSeq(U[j], Len(Dir(U[i])) + 1, Len(U[j]))

RECURSIVE Inj(_, _)
Inj(T, l) == IF l = 0 THEN {<<>>}
             ELSE LET P == Inj(T, l - 1)
                  IN P \cup {Append(s, x) : s \in {s \in P : Len(s) = l - 1}, x \in T}
NoRep(s) == \A a, b \in 1..Len(s) : s[a] = s[b] => a = b
ImpChoices == [i \in 1..NU |-> {s \in Inj({Rel(i, j) : j \in {j \in 1..NU : Importable(i, j)}}, MaxImp) : NoRep(s)}]
RuleChoices == [i \in 1..NU |-> SUBSET Names]

RECURSIVE Prod(_, _)
Prod(C, k) == IF k = 0 THEN {<<>>} ELSE {Append(s, x) : s \in Prod(C, k - 1), x \in C[k]}

SeqOfSet(S) == SelectSeq(NameSeq, LAMBDA n : n \in S)

\* ---- completion of a skeleton with references (the same for both sources)
PName(i) == "P" \o ToString(i)
Skeleton(paths, imps, rls) ==
  [i \in 1..Len(paths) |-> [path |-> paths[i], imports |-> imps[i], rules |-> <<PName(i)>> \o rls[i]]]

\* F0: files with path, imports, rules (own probe rule first); v: the variant
Build(F0, nms, v) ==
  LET F1 == [i \in 1..Len(F0) |-> [path |-> F0[i].path, imports |-> F0[i].imports, rules |-> F0[i].rules,
                                   refs |-> <<>>, qrefs |-> <<>>, probe |-> <<>>, parent |-> 0]]
      d  == Dfs(F1)
      L  == Range(d.order)
      kids(i) == SelectSeq(d.order, LAMBDA j : d.parent[j] = i)
      \* the carrier: the probe rule of a file references the probe rules of the files it entered
      carrier(i) == [k \in 1..Len(kids(i)) |-> PName(kids(i)[k])]
      seen(i) == SelectSeq(nms, LAMBDA n : Resolve(F1, i, n) # 0)
      root(i) == Len(F1[i].path) = 1
      \* qualified references `[ns.Name]`: in files of the main directory, naming the file
      \* itself or a file it imports, of the main directory
      qs(i) == IF ~root(i) \/ v.kind = "noq" THEN <<>>
               ELSE Flat([k \in 1..Len(d.order) |->
                      LET j == d.order[k] IN
                      IF ~root(j) \/ ~(j = i \/ j \in Range(ImpT(F1, i))) THEN <<>>
                      ELSE LET ns == SelectSeq(nms, LAMBDA n : n \in Rules(F1)[j])
                           IN [q \in 1..Len(ns) |-> [ns |-> F1[j].path, name |-> ns[q], form |-> "obj"]]])
      extra(i) == IF v.kind = "neg" /\ v.file = i THEN <<v.name>> ELSE <<>>
      qextra(i) == IF v.kind = "q" /\ v.file = i THEN << [ns |-> F1[v.target].path, name |-> v.name, form |-> v.form] >>
                   ELSE <<>>
  IN [i \in 1..Len(F1) |->
        [F1[i] EXCEPT !.refs = carrier(i) \o seen(i) \o extra(i),
                      !.qrefs = qs(i) \o qextra(i),
                      !.probe = IF i = 1 THEN nms ELSE <<>>,
                      !.parent = d.parent[i]]]

NoVariant == [kind |-> "base", file |-> 0, name |-> "-", form |-> "-", target |-> 0]
\* one extra reference that must not resolve: a name defined in some loaded file
\* that is neither the file itself nor one of its imports
NegVariants(F0, nms) ==
  LET F1 == Build(F0, nms, NoVariant) IN
  {v \in [kind : {"neg"}, file : 1..Len(F0), name : Range(nms), form : {"-"}, target : {0}] :
      /\ v.file \in Reach(F1)
      /\ Resolve(F1, v.file, v.name) = 0
      /\ \E j \in Reach(F1) : v.name \in Rules(F1)[j]}
\* one extra qualified reference in the main grammar, in a form the documentation
\* shows (`x=ns.Name`) or implies (`[ns.Name]` with a directory); acyclic graphs only
QVariants(F0, nms) ==
  LET F1 == Build(F0, nms, NoVariant) IN
  IF Cyclic(F1) THEN {}
  ELSE {v \in [kind : {"q"}, file : {1}, name : Range(nms), form : {"rule", "obj"}, target : Reach(F1)] :
          /\ v.target \in Range(ImpT(F1, 1))
          \* one name per imported file: the first of nms the file defines
          /\ \E q \in 1..Len(nms) : /\ nms[q] = v.name /\ v.name \in Rules(F1)[v.target]
                                     /\ \A q2 \in 1..(q - 1) : nms[q2] \notin Rules(F1)[v.target]
          /\ (v.form = "obj" => Len(F1[v.target].path) > 1)}

\* on cyclic graphs also the case without any qualified reference (so that a load which only
\* differs in unqualified links is seen as such)
NoQVariants(F0, nms) ==
  IF Cyclic(Build(F0, nms, NoVariant)) THEN {[kind |-> "noq", file |-> 0, name |-> "-", form |-> "-", target |-> 0]} ELSE {}

Variants(F0, nms) ==
  {NoVariant} \cup (IF IOEnv.VT_VARIANTS = "1"
                    THEN NegVariants(F0, nms) \cup QVariants(F0, nms) \cup NoQVariants(F0, nms) ELSE {})

\* ---- source 1: enumeration
AllReachable(F) == Reach(F) = 1..Len(F)
\* ---- source 2: skeletons from a file
FileCases == IF IOEnv.VT_CASES = "" THEN <<>> ELSE JsonDeserialize(IOEnv.VT_CASES)

VARIABLES cid, var
mvars == <<vars, cid, var>>

\* the enumeration is split over processes by the choice made for the main grammar
NSh == CHOOSE n \in 1..64 : ToString(n) = IOEnv.VT_NSHARDS
RECURSIVE S2S(_)
S2S(S) == IF S = {} THEN <<>> ELSE LET x == CHOOSE x \in S : TRUE IN <<x>> \o S2S(S \ {x})
MainChoices == S2S(ImpChoices[1] \X RuleChoices[1])
InShard(a, b) == \E k \in 1..Len(MainChoices) : MainChoices[k] = <<a, b>> /\ ToString(k % NSh) = IOEnv.VT_SHARD

GenInit ==
  \E im \in Prod(ImpChoices, NU) :
    /\ AllReachable(Skeleton(U, im, [i \in 1..NU |-> <<>>]))
    /\ \E rl \in Prod(RuleChoices, NU) :
         /\ InShard(im[1], rl[1])
         /\ LET sk == Skeleton(U, im, [i \in 1..NU |-> SeqOfSet(rl[i])]) IN
            \E v \in Variants(sk, NameSeq) :
               /\ InitFor(Build(sk, NameSeq, v)) /\ cid = "-" /\ var = v

FileInit ==
  \E c \in 1..Len(FileCases) :
    LET sk == [i \in 1..Len(FileCases[c].files) |->
                 [path |-> FileCases[c].files[i].path, imports |-> FileCases[c].files[i].imports,
                  rules |-> <<PName(i)>> \o FileCases[c].files[i].rules]]
        nms == FileCases[c].names
    IN \E v \in (IF FileCases[c].variant.kind = "any" THEN Variants(sk, nms) ELSE {FileCases[c].variant}) :
         /\ InitFor(Build(sk, nms, v)) /\ cid = FileCases[c].id /\ var = v

CaseJson == [id |-> cid, variant |-> var, names |-> fs[1].probe,
             files |-> [i \in 1..Len(fs) |-> [ns |-> Ns(fs, i), path |-> fs[i].path,
                                              imports |-> [k \in 1..Len(fs[i].imports) |-> Dotted(fs[i].imports[k])],
                                              rules |-> fs[i].rules, refs |-> fs[i].refs,
                                              qrefs |-> [k \in 1..Len(fs[i].qrefs) |->
                                                           <<Dotted(fs[i].qrefs[k].ns), fs[i].qrefs[k].name, fs[i].qrefs[k].form>>],
                                              parent |-> fs[i].parent]]]

EmitCase == (Emit /\ phase' \in {"ready", "failed"} /\ phase \notin {"ready", "failed"})
              => PrintT("CASE|" \o ToJson([case |-> CaseJson, out |-> Outcome']))

MNext == \/ Next /\ UNCHANGED <<cid, var>>
         \/ Final /\ UNCHANGED mvars      \* a finished load stutters; any other stop is a deadlock
GenSpec  == GenInit /\ [][MNext]_mvars
FileSpec == FileInit /\ [][MNext]_mvars
=============================================================================
