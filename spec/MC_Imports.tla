----------------------------- MODULE MC_Imports -----------------------------
(* Case sources for Imports.tla:                                            *)
(*   * enumeration of every import graph over a small universe of files     *)
(*     (VT_UNIV names the universe, VT_NAMES the profile of rule names and  *)
(*     bodies);                                                             *)
(*   * skeletons (paths, imports, rule definitions) read from a JSON file   *)
(*     (VT_CASES), completed with references by the same Build operator.    *)
(* Each case is loaded by Imports!Next; the final step prints the case and  *)
(* the outcome an observer of the meta-model must see.                      *)
EXTENDS Imports, IOUtils, Json

\* ---- universes: paths below the directory of the main grammar, main first
Universe ==
  CASE IOEnv.VT_UNIV = "m"      -> << <<"m">> >>
    [] IOEnv.VT_UNIV = "mf"     -> << <<"m">>, <<"f">> >>
    [] IOEnv.VT_UNIV = "mfe"    -> << <<"m">>, <<"f">>, <<"e">> >>
    [] IOEnv.VT_UNIV = "mfg"    -> << <<"m">>, <<"f">>, <<"d", "g">> >>
    [] IOEnv.VT_UNIV = "mgh"    -> << <<"m">>, <<"d", "g">>, <<"d", "h">> >>
    [] IOEnv.VT_UNIV = "mfgh"   -> << <<"m">>, <<"f">>, <<"d", "g">>, <<"d", "h">> >>
    [] IOEnv.VT_UNIV = "mfeg"   -> << <<"m">>, <<"f">>, <<"e">>, <<"d", "g">> >>
    [] IOEnv.VT_UNIV = "mfgk"   -> << <<"m">>, <<"f">>, <<"d", "g">>, <<"d", "e", "k">> >>
    \* a grammar two directories down with an import of its own, and a file of the same name one level up
    [] IOEnv.VT_UNIV = "mkhh"   -> << <<"m">>, <<"d", "e", "k">>, <<"d", "e", "h">>, <<"d", "h">> >>
    [] IOEnv.VT_UNIV = "mkhg"   -> << <<"m">>, <<"d", "e", "k">>, <<"d", "e", "h">>, <<"d", "g">> >>
    \* main grammars whose file name ends in the letters of the extension
    [] IOEnv.VT_UNIV = "first"  -> << <<"first">>, <<"f">> >>
    [] IOEnv.VT_UNIV = "syntax" -> << <<"syntax">>, <<"text">>, <<"d", "next">> >>
    [] OTHER                    -> << <<"m">> >>
U == Universe
NU == Len(U)
Builtins == {"ID"}

\* ---- profiles of rule definitions: a definition is <<name, body, alias target>>
Def(n, b, t) == <<n, b, t>>
Opt(n) == {<<>>, <<Def(n, "common", "")>>}
Slots ==
  CASE IOEnv.VT_NAMES = "A"   -> <<Opt("A")>>
    [] IOEnv.VT_NAMES = "AB"  -> <<Opt("A"), Opt("B")>>
    \* kinds: A may be `A: B;`, B may be a match rule
    [] IOEnv.VT_NAMES = "K"   -> << Opt("A") \cup {<<Def("A", "alias", "B")>>}, Opt("B") \cup {<<Def("B", "match", "")>>} >>
    \* a grammar's own ID rule, referenced directly and through `A: ID;`
    [] IOEnv.VT_NAMES = "I"   -> << Opt("A") \cup {<<Def("A", "alias", "ID")>>}, {<<>>, <<Def("ID", "match", "")>>} >>
    [] OTHER                  -> <<Opt("A"), Opt("B"), Opt("C")>>
NameSeq == CASE IOEnv.VT_NAMES = "A" -> <<"A">> [] IOEnv.VT_NAMES = "AB" -> <<"A", "B">>
             [] IOEnv.VT_NAMES = "K" -> <<"A", "B">> [] IOEnv.VT_NAMES = "I" -> <<"A", "ID">>
             [] OTHER -> <<"A", "B", "C">>
MaxImp == IF IOEnv.VT_MAXIMP = "3" THEN 3 ELSE 2
DevSet == IF IOEnv.VT_DEV = "" THEN {} ELSE {IOEnv.VT_DEV}
Emit == IOEnv.VT_EMIT = "1"

IsPrefix(a, b) == Len(a) <= Len(b) /\ SubSeq(b, 1, Len(a)) = a
\* file j can be named by an import statement of file i: it lives in i's directory or below
Importable(i, j) == i # j /\ IsPrefix(Dir(U[i]), Dir(U[j]))
Rel(i, j) == SubSeq(U[j], Len(Dir(U[i])) + 1, Len(U[j]))

RECURSIVE Inj(_, _)
Inj(T, l) == IF l = 0 THEN {<<>>}
             ELSE LET P == Inj(T, l - 1)
                  IN P \cup {Append(s, x) : s \in {s \in P : Len(s) = l - 1}, x \in T}
NoRep(s) == \A a, b \in 1..Len(s) : s[a] = s[b] => a = b
ImpChoices == [i \in 1..NU |-> {s \in Inj({Rel(i, j) : j \in {j \in 1..NU : Importable(i, j)}}, MaxImp) : NoRep(s)}]

RECURSIVE Prod(_, _)
Prod(C, k) == IF k = 0 THEN {<<>>} ELSE {Append(s, x) : s \in Prod(C, k - 1), x \in C[k]}
DefChoices == {Flat(s) : s \in Prod(Slots, Len(Slots))}          \* the rule definitions a file may have
RuleChoices == [i \in 1..NU |-> DefChoices]

\* ---- completion of a skeleton with references (the same for both sources)
PName(i) == "P" \o ToString(i)
\* a skeleton file: [path, imports, defs]; defs: Seq of <<name, body, target>>
Skeleton(paths, imps, dfs) == [i \in 1..Len(paths) |-> [path |-> paths[i], imports |-> imps[i], defs |-> dfs[i]]]

Plain(F0) == [i \in 1..Len(F0) |->
                [path |-> F0[i].path, imports |-> F0[i].imports,
                 rules |-> <<PName(i)>> \o [k \in 1..Len(F0[i].defs) |-> F0[i].defs[k][1]],
                 body |-> <<"probe">> \o [k \in 1..Len(F0[i].defs) |-> F0[i].defs[k][2]],
                 alias |-> LET as == SelectSeq(F0[i].defs, LAMBDA d : d[2] = "alias")
                           IN [k \in 1..Len(as) |-> [name |-> as[k][1], target |-> as[k][3]]],
                 refs |-> <<>>, qrefs |-> <<>>, probe |-> <<>>, parent |-> 0]]

\* the fragment: the body of an alias rule names a rule that its file defines or imports (a built-in
\* name only if the file defines it itself), and that rule is not an alias rule
AliasOK(F1) ==
  \A i \in 1..Len(F1) : \A a \in Range(F1[i].alias) :
     LET j == Resolve(F1, i, a.target) IN
     /\ j # 0 /\ BodyOf(F1, j, a.target) # "alias"
     /\ (a.target \in Builtins => j = i)
\* a skeleton outside the fragment is brought into it: the alias rule becomes a common rule
Sanitised(F0) ==
  IF AliasOK(Plain(F0)) THEN F0
  ELSE [i \in 1..Len(F0) |-> [F0[i] EXCEPT !.defs = [k \in 1..Len(F0[i].defs) |->
          IF F0[i].defs[k][2] = "alias" THEN Def(F0[i].defs[k][1], "common", "") ELSE F0[i].defs[k]]]]

\* F0: skeleton; nms: names to probe; v: the variant
Build(F0, nms, v) ==
  LET F1 == Plain(F0)
      d  == Dfs(F1)
      kids(i) == SelectSeq(d.order, LAMBDA j : d.parent[j] = i)
      \* the carrier: the probe rule of a file references the probe rules of the files it entered
      carrier(i) == [k \in 1..Len(kids(i)) |-> PName(kids(i)[k])]
      \* unqualified references: every name with a documented target (a built-in name only where the
      \* file defines its own rule of that name)
      seen(i) == SelectSeq(nms, LAMBDA n : Resolve(F1, i, n) # 0 /\ (n \in Builtins => n \in Rules(F1)[i]))
      root(i) == Len(F1[i].path) = 1
      \* qualified references `[ns.Name]`: in files of the main directory, naming the file
      \* itself or a file it imports
      qs(i) == IF ~root(i) \/ v.kind = "noq" THEN <<>>
               ELSE Flat([k \in 1..Len(d.order) |->
                      LET j == d.order[k] IN
                      IF ~(j = i \/ j \in Range(ImpT(F1, i))) THEN <<>>
                      ELSE LET ns == SelectSeq(nms, LAMBDA n : n \in Rules(F1)[j])
                           IN [q \in 1..Len(ns) |-> [ns |-> F1[j].path, name |-> ns[q], form |-> "obj"]]])
      extra(i) == IF v.kind = "neg" /\ v.file = i THEN <<v.name>> ELSE <<>>
      qextra(i) == IF v.kind = "q" /\ v.file = i THEN << [ns |-> F1[v.target].path, name |-> v.name, form |-> v.form] >>
                   ELSE <<>>
  IN [i \in 1..Len(F1) |->
        [F1[i] EXCEPT !.refs = carrier(i) \o seen(i) \o extra(i),
                      !.qrefs = qs(i) \o qextra(i),
                      !.probe = IF i = 1 THEN SelectSeq(nms, LAMBDA n : n \notin Builtins \/ n \in Rules(F1)[1]) ELSE <<>>,
                      !.parent = d.parent[i]]]

NoVariant == [kind |-> "base", file |-> 0, name |-> "-", form |-> "-", target |-> 0]
\* one extra reference that must not resolve: a name defined in some loaded file
\* that is neither the file itself nor one of its imports
NegVariants(F0, nms) ==
  LET F1 == Plain(F0) IN
  {v \in [kind : {"neg"}, file : 1..Len(F0), name : Range(nms) \ Builtins, form : {"-"}, target : {0}] :
      /\ v.file \in Reach(F1)
      /\ Resolve(F1, v.file, v.name) = 0
      /\ \E j \in Reach(F1) : v.name \in Rules(F1)[j]}
\* one extra qualified rule reference `x=ns.Name` in the main grammar (the form the documentation
\* shows); acyclic graphs only
QVariants(F0, nms) ==
  LET F1 == Plain(F0) IN
  IF Cyclic(F1) THEN {}
  ELSE {v \in [kind : {"q"}, file : {1}, name : Range(nms), form : {"rule"}, target : Reach(F1)] :
          /\ v.target \in Range(ImpT(F1, 1))
          \* one name per imported file: the first of nms the file defines
          /\ \E q \in 1..Len(nms) : /\ nms[q] = v.name /\ v.name \in Rules(F1)[v.target]
                                     /\ \A q2 \in 1..(q - 1) : nms[q2] \notin Rules(F1)[v.target]}
\* on cyclic graphs also the case without any qualified reference (so that a load which only
\* differs in unqualified links is seen as such)
NoQVariants(F0, nms) ==
  IF Cyclic(Plain(F0)) THEN {[kind |-> "noq", file |-> 0, name |-> "-", form |-> "-", target |-> 0]} ELSE {}

Variants(F0, nms) ==
  {NoVariant} \cup (IF IOEnv.VT_VARIANTS = "1"
                    THEN NegVariants(F0, nms) \cup QVariants(F0, nms) \cup NoQVariants(F0, nms) ELSE {})

\* ---- source 1: enumeration
AllReachable(F) == Reach(F) = 1..Len(F)
\* graphs on which the order of the import statements of some file is not the order in which the
\* imported files are loaded: the second of two imports was entered before the first (it had been
\* loaded through another file already)
PosIn(q, x) == CHOOSE k \in 1..Len(q) : q[k] = x
Reordered(F) ==
  LET ord == Dfs(F).order IN
  \E i \in Reach(F) : \E a, b \in 1..Len(ImpT(F, i)) :
     LET P == ImpT(F, i)[a]  Q == ImpT(F, i)[b] IN
     a < b /\ P # Q /\ P # i /\ Q # i /\ P # 0 /\ Q # 0 /\ PosIn(ord, Q) < PosIn(ord, P)
\* (acyclic ones: on a cycle the known deviation F-C25-1 decides the outcome)
GraphFilter(F) == IF IOEnv.VT_FILTER = "reorder" THEN Reordered(F) /\ ~Cyclic(F) ELSE TRUE
\* ---- source 2: skeletons from a file
FileCases == IF IOEnv.VT_CASES = "" THEN <<>> ELSE JsonDeserialize(IOEnv.VT_CASES)

VARIABLES cid, var
mvars == <<vars, cid, var>>

\* the enumeration is split over processes by the choice made for the main grammar
NSh == CHOOSE n \in 1..64 : ToString(n) = IOEnv.VT_NSHARDS
RECURSIVE S2S(_)
S2S(S) == IF S = {} THEN <<>> ELSE LET x == CHOOSE x \in S : TRUE IN <<x>> \o S2S(S \ {x})
MainChoices == S2S(ImpChoices[1] \X RuleChoices[1])
InShard(a, b) == \E k \in 1..Len(MainChoices) : MainChoices[k] = <<a, b>> /\ ToString(k % NSh) = IOEnv.VT_SHARD

GenInit ==
  \E im \in Prod(ImpChoices, NU) :
    /\ \E b \in RuleChoices[1] : InShard(im[1], b)
    /\ AllReachable(Plain(Skeleton(U, im, [i \in 1..NU |-> <<>>])))
    /\ GraphFilter(Plain(Skeleton(U, im, [i \in 1..NU |-> <<>>])))
    /\ \E rl \in Prod(RuleChoices, NU) :
         /\ InShard(im[1], rl[1])
         /\ LET sk == Skeleton(U, im, rl) IN
            /\ AliasOK(Plain(sk))
            /\ \E v \in Variants(sk, NameSeq) :
                 /\ InitFor(Build(sk, NameSeq, v)) /\ cid = "-" /\ var = v

FileInit ==
  \E c \in 1..Len(FileCases) :
    LET sk == Sanitised([i \in 1..Len(FileCases[c].files) |->
                 [path |-> FileCases[c].files[i].path, imports |-> FileCases[c].files[i].imports,
                  defs |-> FileCases[c].files[i].defs]])
        nms == FileCases[c].names
    IN \E v \in (IF FileCases[c].variant.kind = "any" THEN Variants(sk, nms) ELSE {FileCases[c].variant}) :
         /\ InitFor(Build(sk, nms, v)) /\ cid = FileCases[c].id /\ var = v

DefsOf(i) == [k \in 2..Len(fs[i].rules) |->
                LET n == fs[i].rules[k] IN
                <<n, fs[i].body[k], IF fs[i].body[k] = "alias" THEN fs[i].alias[AliasIdx(fs, i, n)].target ELSE "">>]
CaseJson == [id |-> cid, variant |-> var, names |-> fs[1].probe,
             files |-> [i \in 1..Len(fs) |-> [ns |-> Ns(fs, i), path |-> fs[i].path,
                                              imports |-> [k \in 1..Len(fs[i].imports) |-> Dotted(fs[i].imports[k])],
                                              rules |-> fs[i].rules,
                                              defs |-> [k \in 1..(Len(fs[i].rules) - 1) |-> DefsOf(i)[k + 1]],
                                              refs |-> fs[i].refs,
                                              qrefs |-> [k \in 1..Len(fs[i].qrefs) |->
                                                           <<Dotted(fs[i].qrefs[k].ns), fs[i].qrefs[k].name, fs[i].qrefs[k].form>>],
                                              parent |-> fs[i].parent]]]

EmitCase == (Emit /\ phase' \in {"ready", "failed"} /\ phase \notin {"ready", "failed"})
              => PrintT("CASE|" \o ToJson([case |-> CaseJson, out |-> Outcome']))

MNext == \/ Next /\ UNCHANGED <<cid, var>>
         \/ Final /\ UNCHANGED mvars      \* a finished load stutters; any other stop is a deadlock
GenSpec  == GenInit /\ [][MNext]_mvars
FileSpec == FileInit /\ [][MNext]_mvars
=============================================================================
