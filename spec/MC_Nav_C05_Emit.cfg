SPECIFICATION Spec
CONSTANTS
  MM <- MM5
  Dev <- EnvDev
  MaxN = 6
  MaxNamed = 6
  MaxUnnamed = 0
  MaxRefs = 2
  Names <- NoNames
  Sorted = FALSE
  FullN = 4
  Builtins <- NoBuiltins
INVARIANT Emit
CHECK_DEADLOCK FALSE
