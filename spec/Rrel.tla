-------------------------------- MODULE Rrel --------------------------------
(***************************************************************************)
(* RREL -- the reference resolving expression language of textX            *)
(* (docs/src/rrel.md, textx/scoping/rrel.py), property C11.                *)
(*                                                                         *)
(* A *case* c is a record                                                  *)
(*   objs   Seq of [cls, name, named, parent, attrs]   object ids = 1..n,  *)
(*          parent = 0 for the model root, attrs = [a |-> [has, els]] with *)
(*          els the ordered list of object ids the attribute holds         *)
(*          (containment and reference attributes alike; a single-valued   *)
(*          attribute holds <<>> or <<x>>; has = FALSE: no such attribute) *)
(*   expr   [paths |-> Seq of path]      the comma separated alternatives  *)
(*          path = [els |-> Seq of elem],  elem one of                     *)
(*            [k |-> "nav", attr, mode \in {"consume","all","fixed"}, fixed]*)
(*            [k |-> "dots", n]   [k |-> "up"]   [k |-> "parent", type]    *)
(*            [k |-> "br", paths]                [k |-> "star", e]         *)
(*   names  Seq of name parts        cls  target class ("OBJECT" = any)    *)
(*   start  the object holding the reference                               *)
(*   dev    set of deviation clauses switched on ({} = documented)         *)
(*   track, obs   path tracking (see below)                                *)
(*                                                                         *)
(* A configuration is [o, i, f, p]: current object, index of the next      *)
(* unconsumed name part, "no model element processed yet", and the number  *)
(* of entries of the observed path matched so far (0 when not tracking).   *)
(* Ev(c, e, k, fp) is the one-step relation of element e: the set of       *)
(* configurations reachable from k.  `*` is the union of all finite        *)
(* expansions (a least fixpoint, computed by Closure); `fp` says that this *)
(* occurrence of e is in first position of its top-level alternative (it   *)
(* is only used by the deviation clause StarMarksStart).                   *)
(***************************************************************************)
EXTENDS Naturals, Sequences, FiniteSets, TLC

Range(s) == {s[j] : j \in 1..Len(s)}
Min(S)   == CHOOSE x \in S : \A y \in S : x <= y
SetToSeq(S) == LET RECURSIVE f(_)
                   f(T) == IF T = {} THEN <<>> ELSE LET m == Min(T) IN <<m>> \o f(T \ {m})
               IN f(S)

Obj(c, id) == c.objs[id]
RECURSIVE Root(_, _)
Root(c, id) == IF Obj(c, id).parent = 0 THEN id ELSE Root(c, Obj(c, id).parent)
\* the n-th ancestor (0 = the object itself), 0 when the chain is too short
RECURSIVE Anc(_, _, _)
Anc(c, id, n) == IF n = 0 THEN id
                 ELSE IF Obj(c, id).parent = 0 THEN 0 ELSE Anc(c, Obj(c, id).parent, n - 1)
RECURSIVE AncSelf(_, _)
AncSelf(c, id) == {id} \cup (IF Obj(c, id).parent = 0 THEN {} ELSE AncSelf(c, Obj(c, id).parent))
Conf(c, id, T) == T = "OBJECT" \/ Obj(c, id).cls = T
\* nearest strict ancestor conforming to T, 0 if none
RECURSIVE ParentOf(_, _, _)
ParentOf(c, id, T) == LET p == Obj(c, id).parent IN
                      IF p = 0 THEN 0 ELSE IF Conf(c, p, T) THEN p ELSE ParentOf(c, p, T)

End(c) == Len(c.names) + 1
Cfg(o, i, p) == [o |-> o, i |-> i, f |-> FALSE, p |-> p]
Initial(c)   == [o |-> c.start, i |-> 1, f |-> TRUE, p |-> 0]

\* the first element of an ordered collection that has the given name
FirstNamed(c, els, n) ==
  LET I == {j \in 1..Len(els) : Obj(c, els[j]).named /\ Obj(c, els[j]).name = n}
  IN IF I = {} THEN {} ELSE {els[Min(I)]}

\* a step that selects the named object x (it becomes part of the path); when a
\* path is tracked only derivations whose path is a prefix of c.obs are kept
Select(c, k, x, i) ==
  IF c.track
  THEN IF k.p < Len(c.obs) /\ c.obs[k.p + 1] = x THEN {Cfg(x, i, k.p + 1)} ELSE {}
  ELSE {Cfg(x, i, 0)}

\* can an element start at the referencing object / at the model root?
RECURSIVE SL(_)
RECURSIVE SR(_)
SL(e) == CASE e.k \in {"dots", "parent", "up"} -> TRUE
           [] e.k = "nav"  -> FALSE
           [] e.k = "star" -> SL(e.e)
           [] e.k = "br"   -> \E j \in 1..Len(e.paths) : SL(e.paths[j].els[1])
SR(e) == CASE e.k \in {"dots", "parent", "up"} -> FALSE
           [] e.k = "nav"  -> TRUE
           [] e.k = "star" -> SR(e.e)
           [] e.k = "br"   -> \E j \in 1..Len(e.paths) : SR(e.paths[j].els[1])

\* StarMarksStart: a configuration "at the referencing object, nothing consumed"
Marked(c, x) == x.o = c.start /\ x.i = 1

RECURSIVE Ev(_, _, _, _)
RECURSIVE EvPath(_, _, _, _, _)
RECURSIVE Closure(_, _, _, _, _)

Step(c, e, K, fp) == UNION {Ev(c, e, k, fp) : k \in K}

\* least fixpoint of applying e; with cut, configurations Marked are dropped
Closure(c, e, K, fp, cut) ==
  LET S == Step(c, e, K, fp)
      N == K \cup (IF cut THEN {x \in S : ~Marked(c, x)} ELSE S)
  IN IF N = K THEN K ELSE Closure(c, e, N, fp, cut)

Ev(c, e, k, fp) ==
  CASE e.k = "nav" ->
         LET o == IF k.f THEN Root(c, k.o) ELSE k.o       \* a leading navigation is absolute
             a == Obj(c, o).attrs[e.attr]
         IN IF ~a.has THEN {}
            ELSE (CASE e.mode = "all"     -> {Cfg(x, k.i, k.p) : x \in Range(a.els)}
                    [] e.mode = "fixed"   -> UNION {Select(c, k, x, k.i) : x \in FirstNamed(c, a.els, e.fixed)}
                    [] e.mode = "consume" ->
                         IF k.i > Len(c.names) THEN {}
                         ELSE UNION {Select(c, k, x, k.i + 1) : x \in FirstNamed(c, a.els, c.names[k.i])})
    [] e.k = "dots" ->
         LET an == Anc(c, k.o, e.n - 1) IN IF an = 0 THEN {} ELSE {Cfg(an, k.i, k.p)}
    [] e.k = "parent" ->
         LET pa == ParentOf(c, k.o, e.type) IN IF pa = 0 THEN {} ELSE {Cfg(pa, k.i, k.p)}
    [] e.k = "up" ->                                       \* ^ : the object and all its ancestors
         {Cfg(u, k.i, k.p) : u \in AncSelf(c, k.o)}
    [] e.k = "br" ->
         UNION {EvPath(c, e.paths[j].els, 1, {k}, fp) : j \in 1..Len(e.paths)}
    [] e.k = "star" ->
         \* e^0 \cup e^1 \cup e^2 ...; only the first factor of an expansion sees `first`
         LET Z == IF k.f
                  THEN (IF SL(e.e) THEN {Cfg(k.o, k.i, k.p)} ELSE {})
                       \cup (IF SR(e.e) THEN {Cfg(Root(c, k.o), k.i, k.p)} ELSE {})
                  ELSE {Cfg(k.o, k.i, k.p)}
             \* Deviation StarMarksStart (what find_object_with_path does): its visited set
             \* records (referencing object, this `*`, nothing consumed) when the `*` in first
             \* position is entered, although what was yielded for zero repetitions may have
             \* been the model root.  Every later arrival of this `*` at that configuration is
             \* cut: it is neither yielded nor expanded.
             cut == "StarMarksStart" \in c.dev /\ fp
             F   == LET S == Ev(c, e.e, k, fp) IN IF cut THEN {x \in S : ~Marked(c, x)} ELSE S
         IN IF cut /\ ~k.f /\ Marked(c, k) THEN {}
            ELSE Z \cup Closure(c, e.e, F, fp, cut)

\* e1.e2...en : relational composition; only e1 sees `first` / first position
EvPath(c, els, j, K, fp) ==
  IF j > Len(els) THEN K
  ELSE EvPath(c, els, j + 1, UNION {Ev(c, els[j], k, fp /\ j = 1) : k \in K}, fp)

----------------------------------------------------------------------------
\* Reach of the j-th top-level alternative, and the result rule

Reach(c, j) == EvPath(c, c.expr.paths[j].els, 1, {Initial(c)}, TRUE)

Final(c, k) == k.i = End(c) /\ Conf(c, k.o, c.cls)
Accepted(c, j) == {k.o : k \in {x \in Reach(c, j) : Final(c, x)}}

NAlt(c) == Len(c.expr.paths)
\* the alternative that decides: the first whose accepted set is not empty (0: none)
Deciding(c) == LET J == {j \in 1..NAlt(c) : Accepted(c, j) # {}} IN IF J = {} THEN 0 ELSE Min(J)
\* the reference may resolve to exactly these objects; {} = it must not resolve
Allowed(c) == IF Deciding(c) = 0 THEN {} ELSE Accepted(c, Deciding(c))

----------------------------------------------------------------------------
\* `+p:` -- the proxy's path.  With c.track the derivations are restricted to
\* those whose list of selected named objects is a prefix of c.obs.
\* Documented: the path lists the named objects traversed and ends in the
\* target, i.e. it is the list of selected objects, followed by the target
\* when that is not already its last entry.
\* Deviation ProxyLastNamed: the path is the list of selected objects only and
\* the proxy stands for its last entry, whatever the expression reached after.
PathWitness(c, j) ==
  LET n == Len(c.obs)
      R == {x \in Reach(c, j) : Final(c, x)}
  IN IF "ProxyLastNamed" \in c.dev
     THEN \E x \in R : x.p = n
     ELSE n > 0 /\ \E x \in R :
            /\ x.o = c.obs[n]
            /\ \/ x.p = n
               \/ x.p = n - 1 /\ (n = 1 \/ c.obs[n - 1] # x.o)
=============================================================================
