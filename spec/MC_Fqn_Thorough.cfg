SPECIFICATION Spec
CONSTANTS
  Dev = {}
  MaxCross = 2
  GrpSlots = {1, 3}
  TClasses = {"Cls", "Pkg"}
INVARIANT C10
CHECK_DEADLOCK FALSE
