SPECIFICATION Spec
CONSTANTS
  Dev = {}
  MaxCross = 2
INVARIANT C10
CHECK_DEADLOCK FALSE
