SPECIFICATION GenSpec
CONSTANTS
  Dev <- DevSet
INVARIANT TypeOK
INVARIANT StackNoDup
INVARIANT Terminates
INVARIANT OneClassSet
INVARIANT DfsAgrees
INVARIANT ResolvedAsDocumented
INVARIANT FailsOnlyWhenDangling
INVARIANT FqnFileBased
INVARIANT KindIsLocal
ACTION_CONSTRAINT EmitCase
