---------------------------- MODULE MC_History ----------------------------
(* The pool (configurations, inputs, the Fresh table produced by running    *)
(* each (configuration, input, mode) once in a new interpreter, and the     *)
(* abstract description of the inputs) is data: a JSON file named by        *)
(* IOEnv.VT_POOL, written by vt/props/c16.py.                               *)
EXTENDS History, IOUtils

ThePool == JsonDeserialize(IOEnv.VT_POOL)
=============================================================================
