---------------------------- MODULE MC_History ----------------------------
(* The pool (configurations, inputs, the Fresh table produced by running    *)
(* each (configuration, input, mode) once in a new interpreter, and the     *)
(* abstract description of the inputs) is data: a JSON file named by        *)
(* IOEnv.VT_POOL, written by vt/props/c16.py.                               *)
EXTENDS History, IOUtils

Pool == JsonDeserialize(IOEnv.VT_POOL)

PCfgs     == DOMAIN Pool.flag
PFlag     == Pool.flag
PGrammars == {Pool.flag[c].grammar : c \in PCfgs}
PInputs   == [g \in PGrammars |-> Range(Pool.inputs[g])]
PWInputs  == [g \in PGrammars |-> Range(Pool.winputs[g])]
PFresh    == Pool.fresh
PFreshMM  == Pool.freshmm
PAlt      == Pool.alt
PNested   == [g \in PGrammars |-> [i \in PInputs[g] |-> Range(Pool.nested[g][i])]]
PDefs     == [g \in PGrammars |-> [i \in PInputs[g] |-> Range(Pool.defs[g][i])]]
PUnres    == [g \in PGrammars |-> [i \in PInputs[g] |-> Range(Pool.unres[g][i])]]
PNImp     == Pool.nimp
PSlots    == 1..Pool.slots
PMaxOps   == Pool.maxops
PDev      == Range(Pool.dev)
PBreak    == Range(Pool.brk)
=============================================================================
