------------------------------ MODULE MC_Rrel ------------------------------
(***************************************************************************)
(* (M) for C11: design theorems of Rrel.tla checked by TLC over a bounded  *)
(* universe of (model, referencing object, expression, name, target class) *)
(* cases.  A state of this module *is* a case; the theorems are its        *)
(* invariants.  The universe is built here, in TLA+:                       *)
(*   models   six objects -- root 1, package a (2) in the root, package a  *)
(*            (3) in 2, class b (4) in 3, class a (5) in 2, class b (6) in *)
(*            the root -- with every choice of one optional `extends`      *)
(*            entry for 4 and 5, `extends` of 6 = <<4>> and an optional    *)
(*            `type` for 4 (self loops and cycles included);               *)
(*   exprs    one path = optional prefix (^ . ..) and up to MaxEls         *)
(*            elements out of: 12 navigations (4 attributes x consume / ~ /*)
(*            'a'~), their 9 starred forms over packages, classes, extends,*)
(*            parent(Package), and two starred brackets (one of them with  *)
(*            a body that starts both locally and at the root);            *)
(*   names    a, b, a.b, a.a;   target class Class or OBJECT.              *)
(***************************************************************************)
EXTENDS Rrel

CONSTANTS Dev,       \* deviation clauses switched on ({} = documented semantics)
          MaxEls,    \* 1 or 2 path elements after the prefix
          MaxX       \* 0..MaxX choices per optional extends entry (3 = all)

AttrSeq == <<"packages", "classes", "extends", "type">>
ModeSeq == <<"consume", "all", "fixed">>
Nav(a, m) == [k |-> "nav", attr |-> a, mode |-> m, fixed |-> "a"]
Dots(n)   == [k |-> "dots", n |-> n]
Star(e)   == [k |-> "star", e |-> e]
Br(ps)    == [k |-> "br", paths |-> ps]
P(es)     == [els |-> es]
NavSeq    == [i \in 1..12 |-> Nav(AttrSeq[((i - 1) \div 3) + 1], ModeSeq[((i - 1) % 3) + 1])]
StarSeq   == [i \in 1..9 |-> Star(NavSeq[i])]
Extra     == << [k |-> "parent", type |-> "Package"],
                Star(Br(<<P(<<Nav("extends", "all")>>), P(<<Dots(2)>>)>>)),          \* (~extends,..)*
                Star(Br(<<P(<<Nav("type", "all"), Nav("classes", "consume")>>)>>)) >> \* (~type.classes)*
Elems     == NavSeq \o StarSeq \o Extra
NE        == Len(Elems)
Prefixes  == << [k |-> "up"], Dots(1), Dots(2) >>
NameSeq   == << <<"a">>, <<"b">>, <<"a", "b">>, <<"a", "a">> >>
ClsSeq    == << "Class", "OBJECT" >>

\* ---- models
None == [has |-> FALSE, els |-> <<>>]
L(s) == [has |-> TRUE, els |-> s]
O(cls, name, par, pk, cl, ex, ty) ==
  [cls |-> cls, name |-> name, named |-> cls # "Model", parent |-> par,
   attrs |-> [packages |-> pk, classes |-> cl, extends |-> ex, type |-> ty]]
Opt(x) == IF x = 0 THEN <<>> ELSE <<x + 3>>          \* 1,2,3 -> class 4,5,6
Model(x4, x5, t4) ==
  << O("Model",   "-", 0, L(<<2>>), L(<<6>>), None, None),
     O("Package", "a", 1, L(<<3>>), L(<<5>>), None, None),
     O("Package", "a", 2, L(<<>>),  L(<<4>>), None, None),
     O("Class",   "b", 3, None, L(<<>>), L(Opt(x4)), L(Opt(t4))),
     O("Class",   "a", 2, None, L(<<>>), L(Opt(x5)), L(<<>>)),
     O("Class",   "b", 1, None, L(<<>>), L(<<4>>),   L(<<>>)) >>

\* the same model with one more entry at the end of a collection
MoreExtends(objs, t) ==
  [objs EXCEPT ![6].attrs.extends.els = Append(@, t)]
MoreObjects(objs) ==
  Append([objs EXCEPT ![1].attrs.classes.els = Append(@, 7)],
         O("Class", "a", 1, None, L(<<>>), L(<<5>>), L(<<6>>)))

VARIABLES ph, x4, x5, t4, s, pre, e1, e2, ni, ci
vars == <<ph, x4, x5, t4, s, pre, e1, e2, ni, ci>>

Init == /\ ph = 0 /\ x4 \in 0..MaxX /\ x5 \in 0..MaxX /\ t4 \in 0..2 /\ s \in 1..6
        /\ pre = 0 /\ e1 = 0 /\ e2 = 0 /\ ni = 1 /\ ci = 1
Next == /\ ph = 0 /\ ph' = 1
        /\ pre' \in 0..3 /\ e1' \in 0..NE
        /\ e2' \in (IF MaxEls >= 2 /\ e1' # 0 THEN 0..NE ELSE {0})
        /\ (pre' # 0 \/ e1' # 0)
        /\ ni' \in 1..Len(NameSeq) /\ ci' \in 1..Len(ClsSeq)
        /\ UNCHANGED <<x4, x5, t4, s>>
Spec == Init /\ [][Next]_vars

PathOf(up) == (IF pre = 0 THEN <<>> ELSE <<IF pre = 1 THEN up ELSE Prefixes[pre]>>)
              \o (IF e1 = 0 THEN <<>> ELSE <<Elems[e1]>>) \o (IF e2 = 0 THEN <<>> ELSE <<Elems[e2]>>)
Els  == PathOf([k |-> "up"])
Expr == [paths |-> <<P(Els)>>]
Objs == Model(x4, x5, t4)
Case(objs, expr, dev) == [objs |-> objs, expr |-> expr, names |-> NameSeq[ni], cls |-> ClsSeq[ci],
                          start |-> s, dev |-> dev, track |-> FALSE, obs |-> <<>>]
C == Case(Objs, Expr, Dev)

Proj(K) == {<<k.o, k.i>> : k \in K}
ConfigSpace(c) == (1..Len(c.objs)) \X (1..End(c))

----------------------------------------------------------------------------
\* T1  evaluation terminates, also on cyclic `extends`/`type` graphs (TLC evaluating Reach at
\*     all is the proof), and stays inside the finite configuration space
Terminates == ph = 1 => Proj(Reach(C, 1)) \subseteq ConfigSpace(C)

\* T2  the least fixpoint of `*` is reached within |objects| * (|names| + 1) rounds
RECURSIVE Iterate(_, _, _, _)
Iterate(c, e, K, n) == IF n = 0 THEN K ELSE Iterate(c, e, K \cup Step(c, e, K, FALSE), n - 1)
FixpointWithinBound ==
  ph = 1 /\ e1 # 0 /\ Elems[e1].k = "star" /\ pre # 0 =>
    LET c  == Case(Objs, Expr, {})
        K0 == Ev(c, Els[1], Initial(c), TRUE)                \* after the prefix: first = FALSE
        N  == Len(c.objs) * End(c)
    IN \A k \in K0 :
         LET X == Iterate(c, Elems[e1].e, {k}, N)
         IN Step(c, Elems[e1].e, X, FALSE) \subseteq X /\ X = Ev(c, Elems[e1], k, FALSE)

\* T3  Reach is monotone: appending an entry to a collection or an object to the model
\*     never removes a reachable configuration (documented semantics)
Monotone ==
  ph = 1 =>
    LET R == Proj(Reach(Case(Objs, Expr, {}), 1)) IN
    /\ \A t \in 4..6 : R \subseteq Proj(Reach(Case(MoreExtends(Objs, t), Expr, {}), 1))
    /\ R \subseteq Proj(Reach(Case(MoreObjects(Objs), Expr, {}), 1))

\* T4  ^ is (..)*
UpIsDotsStar ==
  ph = 1 /\ pre = 1 =>
    LET alt == [paths |-> <<P(PathOf(Star(Br(<<P(<<Dots(2)>>)>>))))>>]
    IN Reach(C, 1) = Reach(Case(Objs, alt, Dev), 1)

\* T5  "expand `*` starting from 0 times, then match": every finite expansion e.e...e.rest of a
\*     leading e*.rest reaches only configurations the starred expression reaches
RECURSIVE Rep(_, _)
Rep(e, n) == IF n = 0 THEN <<>> ELSE <<e>> \o Rep(e, n - 1)
ExpansionsIncluded ==
  ph = 1 /\ pre = 0 /\ e1 # 0 /\ Elems[e1].k = "star" =>
    LET rest == IF e2 = 0 THEN <<>> ELSE <<Elems[e2]>>
        R    == Proj(Reach(C, 1))
    IN \A n \in 1..3 :
         Proj(Reach(Case(Objs, [paths |-> <<P(Rep(Elems[e1].e, n) \o rest)>>], Dev), 1)) \subseteq R

\* T8  zero repetitions of a leading e*: the referencing object if e can start there, the model
\*     root if e can start at the root -- both for a comma group that mixes the two kinds
ZeroRepetition ==
  ph = 1 /\ pre = 0 /\ e1 # 0 /\ e2 = 0 /\ Elems[e1].k = "star" =>
    LET R == Proj(Reach(C, 1)) IN
    /\ SL(Elems[e1].e) => <<s, 1>> \in R
    /\ SR(Elems[e1].e) => <<1, 1>> \in R

\* T6  the deviation clause StarMarksStart only removes configurations, and none unless a `*`
\*     in first position can start at the root (this is what RrelOracle relies on)
RECURSIVE RootStarFirst(_)
RootStarFirst(e) == CASE e.k = "star" -> SR(e.e) \/ RootStarFirst(e.e)
                      [] e.k = "br"   -> \E j \in 1..Len(e.paths) : RootStarFirst(e.paths[j].els[1])
                      [] OTHER        -> FALSE
DevOnlyRemoves ==
  ph = 1 =>
    LET D == Reach(Case(Objs, Expr, {"StarMarksStart"}), 1)
        R == Reach(Case(Objs, Expr, {}), 1)
    IN D \subseteq R /\ (~RootStarFirst(Els[1]) => D = R)

\* T7  `+p:`: whenever a list of named objects, one per name part, is the path of a witnessing
\*     derivation, its last entry is an accepted target
ProxyEndsInTarget ==
  ph = 1 =>
    LET nm   == NameSeq[ni]
        Cand == {p \in [1..Len(nm) -> 2..6] : \A i \in 1..Len(nm) : Objs[p[i]].name = nm[i]}
    IN \A p \in Cand :
         LET t == [C EXCEPT !.track = TRUE, !.obs = p]
         IN PathWitness(t, 1) => p[Len(nm)] \in Accepted(C, 1)
=============================================================================
