SPECIFICATION TraceSpec
CONSTANTS
  Meta <- CarrierMeta
  Scenarios <- TScenarios
  Dev <- TDev
CONSTRAINT Progress
POSTCONDITION Report
CHECK_DEADLOCK FALSE
