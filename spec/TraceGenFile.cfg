SPECIFICATION TraceSpec
CONSTANTS
  MaxN <- TMaxN
  Dev <- TDev
CONSTRAINT Progress
POSTCONDITION Report
CHECK_DEADLOCK FALSE
