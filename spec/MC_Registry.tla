---------------------------- MODULE MC_Registry ----------------------------
EXTENDS Registry, IOUtils
\* small universe used for exhaustive model checking and edge replay
MCNames    == {"L", "l", "M", "e"}
MCLower    == [x \in {"L", "l", "M", "e", "E", "any", "T", "t", "dot"} |->
                 CASE x = "L" -> "l" [] x = "M" -> "m" [] x = "E" -> "e" [] x = "T" -> "t" [] OTHER -> x]
MCPatterns == {"*.a", "x.a"}
MCFiles    == {"x.a", "y.b"}
MCMatch    == [f \in MCFiles |-> [p \in MCPatterns \cup {"*.b"} |->
                 \/ (p = "*.a" /\ f = "x.a")
                 \/ (p = "x.a" /\ f = "x.a")
                 \/ (p = "*.b" /\ f = "y.b")]]
MCEPLangs  == << [name |-> "E", pat |-> "*.b"] >>
MCEPGens   == << [lang |-> "any", target |-> "dot"] >>
MCTargets  == {"T", "t"}
LangOps    == {"RegisterLanguage", "DescribeLanguage", "ListLanguages", "ClearLanguages",
               "MetamodelFor", "LanguagesForFile", "LanguageForFile"}
GenOps     == {"RegisterGenerator", "DescribeGenerator", "ClearGenerators"}
\* the edge-emitting configuration takes its operation set and deviation from the environment
EdgeOps    == IF IOEnv.VT_OPS = "Lang" THEN LangOps ELSE GenOps
EdgeDev    == IF IOEnv.VT_DEV = "" THEN {} ELSE {IOEnv.VT_DEV}
NoDev      == {}
DevNoPat   == {"NoPatternRaises"}
DevNoLower == {"NoLowerOnRegister"}
DevKeep    == {"ClearKeepsCache"}
DevFirst   == {"FirstOfSeveral"}
=============================================================================
