SPECIFICATION Spec
CONSTANTS
  Seeds <- MCSeeds
  Dev <- NoDev
  Emit = TRUE
INVARIANT Collect
INVARIANT EmitFinal
POSTCONDITION CoverageComplete
CHECK_DEADLOCK FALSE
