--------------------------- MODULE MetaGrammarLex ---------------------------
(***************************************************************************)
(* Raw chunks for MetaGrammar's lexical layer, enumerated by TLC: a regex   *)
(* match whose body is built from a few atoms (a letter, a blank, an        *)
(* escaped slash, an escaped backslash, a lone backslash, `*`, a quote),    *)
(* with a token glued before it and another glued after it, no blank in     *)
(* between.  Every chunk is printed (the harness puts it in place of regex  *)
(* tokens of generated texts) and is a state on which the theorems about    *)
(* the lexical rule are checked.                                            *)
(***************************************************************************)
EXTENDS MetaGrammar, Json, IOUtils

CONSTANT Dev                        \* deviation clauses switched on (documented: {})
MaxAtoms == atoi(IOEnv.VT_NATOMS)   \* body length in atoms

Atoms == << <<"a">>, <<" ">>, <<"\\", "/">>, <<"\\", "\\">>, <<"\\">>, <<"*">>, <<"'">> >>
Befores == << <<>>, <<"'", "s", "'">>, <<"b">>, <<"/", "*", "c", "*", "/">> >>
Afters  == << <<>>, <<"/", "b", "/">>, <<"/", "*", "c", "*", "/">>, <<"/", "/", "c">>, <<"'", "s", "'">>,
              <<"b">>, <<"*">>, <<"/">>, <<"/", "*">>, <<" ", "b">> >>

\* second family: a block comment `/*` body `*/` whose body is built from stars, slashes, a letter, a blank
\* (runs of stars before the closing slash, `*/` inside the body, ...), with a token glued after it
CAtoms == << <<"*">>, <<"/">>, <<"c">>, <<" ">> >>

VARIABLES fam, body, na, bf, af
vars == <<fam, body, na, bf, af>>
Chunk == IF fam = "re" THEN Befores[bf] \o <<"/">> \o body \o <<"/">> \o Afters[af]
         ELSE <<"/", "*">> \o body \o <<"*", "/">> \o Afters[af]

\* the body grows atom by atom; every state is a chunk
Init == /\ body = <<>> /\ na = 0 /\ af \in 1..Len(Afters)
        /\ \/ fam = "re" /\ bf \in 1..Len(Befores)
           \/ fam = "cm" /\ bf = 1
Next == /\ na < (IF fam = "re" THEN MaxAtoms ELSE MaxAtoms + 1)
        /\ \E k \in 1..Len(IF fam = "re" THEN Atoms ELSE CAtoms) :
              body' = body \o (IF fam = "re" THEN Atoms ELSE CAtoms)[k]
        /\ na' = na + 1 /\ UNCHANGED <<fam, bf, af>>
Spec == Init /\ [][Next]_vars

----------------------------------------------------------------------------
Host(ts) == <<"A", ":">> \o ts \o <<";">>
\* every "/" strictly between a and e is an escaped one
OnlyEscapedSlashes(cs, a, e) == \A j \in (a + 1)..(e - 1) : cs[j] = "/" => cs[j - 1] = "\\"

\* the backtracking matcher agrees with the regular expression /((\\/)|[^/])*/ read declaratively:
\* a slash can close the literal iff every slash before it is escaped, and the (greedy) match
\* takes the last slash that can
ReRuleSound == fam = "re" =>
  LET cs == <<"/">> \o body \o <<"/">> \o Afters[af]
      C  == {j \in 2..Len(cs) : cs[j] = "/" /\ OnlyEscapedSlashes(cs, 1, j)}
  IN C # {} /\ LitEnd(cs, 2, "/") = CHOOSE j \in C : \A k \in C : k <= j

\* without a backslash in the body the literal ends at the first slash after the opening one
FirstSlashCloses ==
  (fam = "re" /\ \A j \in 1..Len(body) : body[j] # "\\") =>
     LitEnd(<<"/">> \o body \o <<"/">> \o Afters[af], 2, "/") = Len(body) + 2

\* C24 on chunks: the self-hosted grammar's lexing (under Dev) yields the same verdict
LexAgrees == Dev = {} \/ (InL(Host(Lex(Chunk, 1, {})), {}) <=> InL(Host(Lex(Chunk, 1, Dev)), Dev))

\* the lexer only produces tokens of the alphabet (or <bad>)
LexTotal == \A j \in 1..Len(Lex(Chunk, 1, {})) : Lex(Chunk, 1, {})[j] \in Alphabet \cup {"<bad>"}

\* a block comment ends at the first `*/` after its opening `/*` (lang.py: /\*(.|\n)*?\*/), whatever
\* stars and slashes it contains: the lexer never yields <bad> for the comment itself, and what it
\* yields is what follows that first `*/`
CommentRule == fam = "cm" =>
  LET e == CommentEnd(Chunk, 3) IN
  /\ e # 0 /\ Chunk[e] = "/" /\ Chunk[e - 1] = "*"
  /\ \A j \in 4..(e - 1) : ~(Chunk[j - 1] = "*" /\ Chunk[j] = "/")
  /\ Lex(Chunk, 1, {}) = <<"/*c*/">> \o Lex(Chunk, e + 1, {})

EmitChunk == PrintT("CHUNK|" \o ToJson([cs |-> Chunk, fam |-> fam, bf |-> bf, af |-> af, n |-> na]))
NoDev  == {}
EnvDev == IF IOEnv.VT_DEV = "" THEN {} ELSE {IOEnv.VT_DEV}
=============================================================================
