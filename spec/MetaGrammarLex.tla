--------------------------- MODULE MetaGrammarLex ---------------------------
(***************************************************************************)
(* Raw chunks for MetaGrammar's lexical layer, enumerated by TLC: a regex   *)
(* match whose body is built from a few atoms (a letter, a blank, an        *)
(* escaped slash, an escaped backslash, a lone backslash, `*`, a quote),    *)
(* with a token glued before it and another glued after it, no blank in     *)
(* between.  Every chunk is printed (the harness puts it in place of regex  *)
(* tokens of generated texts) and is a state on which the theorems about    *)
(* the lexical rule are checked.                                            *)
(***************************************************************************)
EXTENDS MetaGrammar, Json, IOUtils

CONSTANT Dev                        \* deviation clauses switched on (documented: {})
MaxAtoms == atoi(IOEnv.VT_NATOMS)   \* body length in atoms

Atoms == << <<"a">>, <<" ">>, <<"\\", "/">>, <<"\\", "\\">>, <<"\\">>, <<"*">>, <<"'">> >>
Befores == << <<>>, <<"'", "s", "'">>, <<"b">>, <<"/", "*", "c", "*", "/">> >>
Afters  == << <<>>, <<"/", "b", "/">>, <<"/", "*", "c", "*", "/">>, <<"/", "/", "c">>, <<"'", "s", "'">>,
              <<"b">>, <<"*">>, <<"/">>, <<"/", "*">>, <<" ", "b">> >>

VARIABLES body, na, bf, af
vars == <<body, na, bf, af>>
Chunk == Befores[bf] \o <<"/">> \o body \o <<"/">> \o Afters[af]

\* the body grows atom by atom; every state is a chunk
Init == body = <<>> /\ na = 0 /\ bf \in 1..Len(Befores) /\ af \in 1..Len(Afters)
Next == /\ na < MaxAtoms
        /\ \E k \in 1..Len(Atoms) : body' = body \o Atoms[k]
        /\ na' = na + 1 /\ UNCHANGED <<bf, af>>
Spec == Init /\ [][Next]_vars

----------------------------------------------------------------------------
Host(ts) == <<"A", ":">> \o ts \o <<";">>
\* every "/" strictly between a and e is an escaped one
OnlyEscapedSlashes(cs, a, e) == \A j \in (a + 1)..(e - 1) : cs[j] = "/" => cs[j - 1] = "\\"

\* the backtracking matcher agrees with the regular expression /((\\/)|[^/])*/ read declaratively:
\* a slash can close the literal iff every slash before it is escaped, and the (greedy) match
\* takes the last slash that can
ReRuleSound ==
  LET cs == <<"/">> \o body \o <<"/">> \o Afters[af]
      C  == {j \in 2..Len(cs) : cs[j] = "/" /\ OnlyEscapedSlashes(cs, 1, j)}
  IN C # {} /\ LitEnd(cs, 2, "/") = CHOOSE j \in C : \A k \in C : k <= j

\* without a backslash in the body the literal ends at the first slash after the opening one
FirstSlashCloses ==
  (\A j \in 1..Len(body) : body[j] # "\\") =>
     LitEnd(<<"/">> \o body \o <<"/">> \o Afters[af], 2, "/") = Len(body) + 2

\* C24 on chunks: the self-hosted grammar's lexing (under Dev) yields the same verdict
LexAgrees == Dev = {} \/ (InL(Host(Lex(Chunk, 1, {})), {}) <=> InL(Host(Lex(Chunk, 1, Dev)), Dev))

\* the lexer only produces tokens of the alphabet (or <bad>)
LexTotal == \A j \in 1..Len(Lex(Chunk, 1, {})) : Lex(Chunk, 1, {})[j] \in Alphabet \cup {"<bad>"}

EmitChunk == PrintT("CHUNK|" \o ToJson([cs |-> Chunk, bf |-> bf, af |-> af, n |-> na]))
NoDev  == {}
EnvDev == IF IOEnv.VT_DEV = "" THEN {} ELSE {IOEnv.VT_DEV}
=============================================================================
