SPECIFICATION Spec
CONSTANTS
  MM <- OMM
  Dev <- ODev
CHECK_DEADLOCK FALSE
