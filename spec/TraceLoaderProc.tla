--------------------------- MODULE TraceLoaderProc ---------------------------
(* I->S: call logs recorded from real loads validated against LoaderProc!Next. *)
(* A trace is [sc, events]; events are                                         *)
(*   [ev |-> "call", obj, rule, linked, inited]   one object processor call    *)
(*   [ev |-> "end", final]                        containment contents at the  *)
(*                                                end of the load              *)
(* Construct / ResolveRound / EndConstruction cannot be observed through the    *)
(* processors and are silent steps.  Scenario t is trace t; register t keeps    *)
(* the furthest event index reached.                                            *)
EXTENDS LoaderProc, LoaderProcCarrier, IOUtils, Json

Traces == JsonDeserialize(IOEnv.VT_TRACES)
TScenarios == [t \in 1..Len(Traces) |-> Traces[t].sc]
TDev == IF IOEnv.VT_DEV = "" THEN {} ELSE {IOEnv.VT_DEV}

VARIABLE l
tvars == <<vars, l>>

ASSUME \A t \in 1..Len(Traces) : TLCSet(t, 0)

TraceInit == Init /\ l = 0

Consume(e) ==
  CASE e.ev = "call" ->
         /\ e.obj \in Objs(sc)          \* a call for something that is no object of the scenario is no step
         /\ CallProcessor(e.obj)
         /\ calls'[Len(calls')] = [obj |-> e.obj, rule |-> e.rule, linked |-> e.linked, inited |-> e.inited]
    [] e.ev = "end" ->
         /\ ToolSupport
         /\ FinalView(sc, cont) = e.final
    [] OTHER -> FALSE

TraceNext ==
  \/ (Construct \/ ResolveRound \/ EndConstruction) /\ l' = l
  \/ /\ l < Len(Traces[sid].events)
     /\ Consume(Traces[sid].events[l + 1])
     /\ l' = l + 1

TraceSpec == TraceInit /\ [][TraceNext]_tvars

Progress == TLCSet(sid, IF l > TLCGet(sid) THEN l ELSE TLCGet(sid))

Report == \A t \in 1..Len(Traces) :
            PrintT("TRACE|" \o ToJson([tid |-> t, reached |-> TLCGet(t), len |-> Len(Traces[t].events)]))
=============================================================================
