------------------------------ MODULE MC_Fqn ------------------------------
(***************************************************************************)
(* (M) for C10: the property itself (C10Holds: a name resolves exactly     *)
(* when a genuine containment chain exists, from the nearest start, never  *)
(* through parent links or references) checked by TLC as an invariant of   *)
(* Fqn.tla over every case of a bounded universe built here:               *)
(*   trees   six slots p, q, p.p, p.q, q.p, q.q, each absent / a package / *)
(*           a class / (slots in GrpSlots only) an anonymous group; a slot *)
(*           below a package or group only; sibling names unique;          *)
(*           a package is falsy in Python unless it directly contains a    *)
(*           class (the user-class variant of the carrier);                *)
(*   refs    optionally one cross reference -- `ext` of a class or `uses`  *)
(*           of a package, any name of <= MaxCross parts -- textually      *)
(*           before one probing `use`/`open` (target class in TClasses)    *)
(*           placed last in the root or in any package or group, with any  *)
(*           name of <= 3 parts over {p, q}.                               *)
(* With Dev = {FqnWalksParent}, {FqnWalksRefs} or {FqnFalsyTargetSkipped}  *)
(* the invariant fails.                                                    *)
(***************************************************************************)
EXTENDS Fqn

CONSTANTS Dev, MaxCross, GrpSlots, TClasses

Slots  == << <<"p">>, <<"q">>, <<"p", "p">>, <<"p", "q">>, <<"q", "p">>, <<"q", "q">> >>
Up(s)  == IF s <= 2 THEN 0 ELSE IF s <= 4 THEN 1 ELSE 2          \* parent slot, 0 = root
NamesUpTo(n) == UNION {[1..m -> {"p", "q"}] : m \in 1..n}

VARIABLES ph, kind, at, probe, tc, xo, xn
vars == <<ph, kind, at, probe, tc, xo, xn>>

WellFormed(k) == /\ \A s \in 3..6 : k[s] # "none" => k[Up(s)] \in {"pkg", "grp"}
                 /\ \A s \in 1..6 : k[s] = "grp" => s \in GrpSlots

Init == /\ ph = 0
        /\ kind \in {k \in [1..6 -> {"none", "pkg", "cls", "grp"}] : WellFormed(k)}
        /\ at = 0 /\ probe = <<"p">> /\ tc = "Cls" /\ xo = 0 /\ xn = <<"p">>
Next == /\ ph = 0 /\ ph' = 1 /\ UNCHANGED kind
        /\ at' \in {0} \cup {s \in 1..6 : kind[s] \in {"pkg", "grp"}}   \* where the probe stands
        /\ probe' \in NamesUpTo(3) /\ tc' \in TClasses
        /\ xo' \in {0} \cup (IF MaxCross = 0 THEN {} ELSE {s \in 1..6 : kind[s] \in {"pkg", "cls"}})
        /\ xn' \in (IF xo' = 0 THEN {<<"p">>} ELSE NamesUpTo(MaxCross))
Spec == Init /\ [][Next]_vars

Last(s) == s[Len(s)]
KidsOf(sl) == SelectSeq(<<1, 2, 3, 4, 5, 6>>, LAMBDA s : kind[s] # "none" /\ Up(s) = sl)
Ids(ss) == [j \in 1..Len(ss) |-> ss[j] + 1]
Elems(sl) == Ids(KidsOf(sl)) \o (IF at = sl THEN <<8>> ELSE <<>>)
Cont(es) == [k |-> "cont", attr |-> "elems", els |-> es]
Ref(a)   == [k |-> "ref", attr |-> a, els |-> <<>>]
HasCls(sl) == \E s \in 1..6 : kind[s] = "cls" /\ Up(s) = sl
Objs ==
  << [cls |-> "Model", name |-> "-", named |-> FALSE, truthy |-> TRUE, parent |-> 0,
      attrs |-> <<Cont(Elems(0))>>] >>
  \o [s \in 1..6 |->
        CASE kind[s] = "pkg" ->
               [cls |-> "Pkg", name |-> Last(Slots[s]), named |-> TRUE, truthy |-> HasCls(s),
                parent |-> Up(s) + 1, attrs |-> <<Ref("uses"), Cont(Elems(s))>>]
          [] kind[s] = "grp" ->
               [cls |-> "Grp", name |-> "-", named |-> FALSE, truthy |-> TRUE,
                parent |-> Up(s) + 1, attrs |-> <<Cont(Elems(s))>>]
          [] OTHER ->
               [cls |-> IF kind[s] = "cls" THEN "Cls" ELSE "None", name |-> Last(Slots[s]),
                named |-> kind[s] = "cls", truthy |-> TRUE, parent |-> Up(s) + 1, attrs |-> <<Ref("ext")>>]]
  \o << [cls |-> "Use", name |-> "-", named |-> FALSE, truthy |-> TRUE, parent |-> at + 1,
         attrs |-> <<Ref("ref")>>] >>
Refs == (IF xo = 0 THEN <<>>
         ELSE << [owner |-> xo + 1, attr |-> IF kind[xo] = "pkg" THEN "uses" ELSE "ext",
                  parts |-> xn, cls |-> "Cls"] >>)
        \o << [owner |-> 8, attr |-> "ref", parts |-> probe, cls |-> tc] >>
C == [objs |-> Objs, refs |-> Refs]

C10 == ph = 1 => C10Holds(C, Dev)
\* the deviation clauses only ever add resolutions to the documented outcome's failures:
\* whatever resolves under the documented semantics resolves to the same object ... is NOT
\* a theorem (a parent/reference step can shadow), so nothing of the kind is claimed here.
=============================================================================
