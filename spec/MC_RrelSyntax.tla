--------------------------- MODULE MC_RrelSyntax ---------------------------
(***************************************************************************)
(* (M) for C12: every RREL expression tree up to a weight bound, over all  *)
(* operators x flags, one state per tree; the theorems of RrelSyntax as    *)
(* invariants.  The same runs print each tree with its text, its normal    *)
(* form and what re-reading the printed form gives under each deviation    *)
(* clause (`CASE|json`), for replay against textx.scoping.rrel (S->I).     *)
(*                                                                         *)
(* Environment: VT_N weight bound; VT_SHARD / VT_NSHARDS; VT_DEV.          *)
(***************************************************************************)
EXTENDS RrelSyntax, TLC, Json, IOUtils

N       == atoi(IOEnv.VT_N)
ShardNo == atoi(IOEnv.VT_SHARD)
NShards == atoi(IOEnv.VT_NSHARDS)
MCDev   == IF IOEnv.VT_DEV = "" THEN {} ELSE {IOEnv.VT_DEV}

A == <<97>>   B == <<98>>   T == <<84>>   Nm == <<110>>
\* leaves of weight 1:  a  ~a  'n'~a  parent(T)
Leaves1 == {Nav("name", A, <<>>, 0), Nav("multi", A, <<>>, 0), Nav("fixed", A, Nm, SQ), Par(T)}
\* leaves of weight 2:  b  "n"~b  "n'"~a  'n"m'~b  'n\''~a
Leaves2 == {Nav("name", B, <<>>, 0), Nav("fixed", B, Nm, DQ), Nav("fixed", A, <<110, SQ>>, DQ),
            Nav("fixed", B, <<110, DQ, 109>>, SQ), Nav("fixed", A, <<110, BSL, SQ>>, SQ)}
Leads   == {Hat, Dots(1), Dots(2), Dots(3)}                   \* weight 1
FlagSet == {<<>>, <<LM>>, <<LPp>>, <<LM, LPp>>, <<LPp, LM>>}   \* none +m: +p: +mp: +pm:

RECURSIVE NonStarOf(_), ElemsOf(_), ElSeqsOf(_), PathsOf(_), SeqsOf(_)
LeavesOf(n)  == IF n = 1 THEN Leaves1 ELSE IF n = 2 THEN Leaves2 ELSE {}
NonStarOf(n) == LeavesOf(n) \cup (IF n >= 2 THEN {Br(sq) : sq \in SeqsOf(n - 1)} ELSE {})
ElemsOf(n)   == NonStarOf(n) \cup (IF n >= 2 THEN {St(e) : e \in NonStarOf(n - 1)} ELSE {})
ElSeqsOf(n)  == IF n <= 0 THEN {}
                ELSE {<<e>> : e \in ElemsOf(n)}
                     \cup UNION {{<<e>> \o r : e \in ElemsOf(k), r \in ElSeqsOf(n - k)} : k \in 1..(n - 1)}
PathsOf(n)   == IF n <= 0 THEN {}
                ELSE {Path(None, els) : els \in ElSeqsOf(n)}
                     \cup (IF n = 1 THEN {Path(l, <<>>) : l \in Leads}
                           ELSE {Path(l, els) : l \in Leads, els \in ElSeqsOf(n - 1)})
SeqsOf(n)    == IF n <= 0 THEN {}
                ELSE {<<p>> : p \in PathsOf(n)}
                     \cup UNION {{<<p>> \o r : p \in PathsOf(k), r \in SeqsOf(n - k)} : k \in 1..(n - 1)}

RECURSIVE SumW(_, _)
SumW(w, i) == IF i > Len(w) THEN 0 ELSE i * w[i] + SumW(w, i + 1)
Mine(sq)   == SumW(Glue(SeqToks(sq, {}), <<>>), 1) % NShards = ShardNo
Universe   == {Expr(f, sq) : f \in FlagSet, sq \in {x \in UNION {SeqsOf(n) : n \in 1..N} : Mine(x)}}

VARIABLE c
Init == c \in Universe
Next == FALSE /\ UNCHANGED c

\* the grammar reads back exactly what was written (tree, quotes, lead, flags) ...
ParsePrintExact == LET r == Parse(PrintD(c, {})) IN r.ok /\ r.v = c
\* ... also with white space between all tokens
ParseSpacedExact == LET r == Parse(PrintSpD(c, {})) IN r.ok /\ r.v = c
\* C12: printing the expression (its normal form, as the implementation holds it) and
\* reading the text again gives the same structure and the same flags
RoundTrip == RoundTripOf(c, MCDev)
NormIdempotent == Norm(Norm(c)) = Norm(c)
\* writing the source form or the normal form makes no difference to what is read
SourceAndNormAgree == ReadNorm(PrintD(c, {})) = <<Norm(c)>>

DevNames == <<"ProxyFlagNotPrinted", "FixedNameSingleQuoted">>
Emit == PrintT("CASE|" \o ToJson(
          [text   |-> PrintD(c, {}),
           textsp |-> PrintSpD(c, {}),
           norm   |-> Norm(c),
           dev    |-> [ProxyFlagNotPrinted   |-> ReadNorm(PrintD(Norm(c), {"ProxyFlagNotPrinted"})),
                       FixedNameSingleQuoted |-> ReadNorm(PrintD(Norm(c), {"FixedNameSingleQuoted"})),
                       Both |-> ReadNorm(PrintD(Norm(c), {"ProxyFlagNotPrinted", "FixedNameSingleQuoted"}))]]))
=============================================================================
