--------------------------- MODULE MC_RrelSyntax ---------------------------
(***************************************************************************)
(* (M) for C12: every RREL expression tree up to a weight bound, over all  *)
(* operators x flags, one state per tree; the theorems of RrelSyntax as    *)
(* invariants.  The same runs print each tree with its text, its normal    *)
(* form and what re-reading the printed form gives under each deviation    *)
(* clause (`CASE|json`), for replay against textx.scoping.rrel (S->I).     *)
(*                                                                         *)
(* Environment: VT_N weight bound; VT_SHARD / VT_NSHARDS; VT_DEV.          *)
(***************************************************************************)
EXTENDS RrelSyntax, TLC, Json, IOUtils

N       == atoi(IOEnv.VT_N)
ShardNo == atoi(IOEnv.VT_SHARD)
NShards == atoi(IOEnv.VT_NSHARDS)
MCDev   == IF IOEnv.VT_DEV = "" THEN {} ELSE {IOEnv.VT_DEV}

A == <<97>>   B == <<98>>   T == <<84>>   Nm == <<110>>
\* leaves of weight 1:  a  ~a  'n'~a  parent(T)
Leaves1 == {Nav("name", A, <<>>, 0), Nav("multi", A, <<>>, 0), Nav("fixed", A, Nm, SQ), Par(T)}
\* leaves of weight 2:  b  "n"~b  "n'"~a  'n"m'~b  'n\''~a  'n m'~a  'nm'~a  e'  parent(E'cole)
\* (fixed names that differ only in white space; names whose first character is not ASCII)
Leaves2 == {Nav("name", B, <<>>, 0), Nav("fixed", B, Nm, DQ), Nav("fixed", A, <<110, SQ>>, DQ),
            Nav("fixed", B, <<110, DQ, 109>>, SQ), Nav("fixed", A, <<110, BSL, SQ>>, SQ),
            Nav("fixed", A, <<110, 32, 109>>, SQ), Nav("fixed", A, <<110, 109>>, SQ),
            Nav("name", <<233, 108>>, <<>>, 0), Par(<<201, 99>>)}
Leads   == {Hat, Dots(1), Dots(2), Dots(3)}                   \* weight 1
FlagSet == {<<>>, <<LM>>, <<LPp>>, <<LM, LPp>>, <<LPp, LM>>}   \* none +m: +p: +mp: +pm:

\* trees by exact weight, level by level (each level is a constant TLC evaluates once)
Cons(Xs, Rs)   == {<<x>> \o r : x \in Xs, r \in Rs}
PathsFrom(ES, ESprev) == {Path(None, els) : els \in ES} \cup {Path(l, els) : l \in Leads, els \in ESprev}

NS1 == Leaves1
E1  == NS1
ES1 == {<<e>> : e \in E1}
P1  == {Path(None, els) : els \in ES1} \cup {Path(l, <<>>) : l \in Leads}
S1  == {<<p>> : p \in P1}

NS2 == Leaves2 \cup {Br(sq) : sq \in S1}
E2  == NS2 \cup {St(e) : e \in NS1}
ES2 == {<<e>> : e \in E2} \cup Cons(E1, ES1)
P2  == PathsFrom(ES2, ES1)
S2  == {<<p>> : p \in P2} \cup Cons(P1, S1)

NS3 == {Br(sq) : sq \in S2}
E3  == NS3 \cup {St(e) : e \in NS2}
ES3 == {<<e>> : e \in E3} \cup Cons(E1, ES2) \cup Cons(E2, ES1)
P3  == PathsFrom(ES3, ES2)
S3  == {<<p>> : p \in P3} \cup Cons(P1, S2) \cup Cons(P2, S1)

NS4 == {Br(sq) : sq \in S3}
E4  == NS4 \cup {St(e) : e \in NS3}
ES4 == {<<e>> : e \in E4} \cup Cons(E1, ES3) \cup Cons(E2, ES2) \cup Cons(E3, ES1)
P4  == PathsFrom(ES4, ES3)
S4  == {<<p>> : p \in P4} \cup Cons(P1, S3) \cup Cons(P2, S2) \cup Cons(P3, S1)

SeqsUpTo(n) == S1 \cup (IF n >= 2 THEN S2 ELSE {}) \cup (IF n >= 3 THEN S3 ELSE {}) \cup (IF n >= 4 THEN S4 ELSE {})

RECURSIVE SumW(_, _)
SumW(w, i) == IF i > Len(w) THEN 0 ELSE i * w[i] + SumW(w, i + 1)
Mine(sq)   == SumW(Glue(SeqToks(sq, {}), <<>>), 1) % NShards = ShardNo
Universe   == {Expr(f, sq) : f \in FlagSet, sq \in {x \in SeqsUpTo(N) : Mine(x)}}

VARIABLE c
Init == c \in Universe
Next == FALSE /\ UNCHANGED c

\* the grammar reads back exactly what was written (tree, quotes, lead, flags) ...
ParsePrintExact == LET r == Parse(PrintD(c, {})) IN r.ok /\ r.v = c
\* ... also with white space between all tokens
ParseSpacedExact == LET r == Parse(PrintSpD(c, {})) IN r.ok /\ r.v = c
\* C12: printing the expression (its normal form, as the implementation holds it) and
\* reading the text again gives the same structure and the same flags
RoundTrip == RoundTripOf(c, MCDev)
NormIdempotent == Norm(Norm(c)) = Norm(c)

DevNames == <<"ProxyFlagNotPrinted", "FixedNameSingleQuoted">>
Emit == PrintT("CASE|" \o ToJson(
          [text   |-> PrintD(c, {}),
           textsp |-> PrintSpD(c, {}),
           norm   |-> Norm(c),
           dev    |-> [ProxyFlagNotPrinted   |-> ReReadUnder(c, {"ProxyFlagNotPrinted"}),
                       FixedNameSingleQuoted |-> ReReadUnder(c, {"FixedNameSingleQuoted"}),
                       Both |-> ReReadUnder(c, {"ProxyFlagNotPrinted", "FixedNameSingleQuoted"})]]))
=============================================================================
