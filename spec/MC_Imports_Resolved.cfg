SPECIFICATION GenSpec
CONSTANTS
  Dev <- DevSet
INVARIANT ResolvedAsDocumented
INVARIANT OneClassSet
INVARIANT KindIsLocal
ACTION_CONSTRAINT EmitCase
