SPECIFICATION GenSpec
CONSTANTS
  Dev <- DevSet
INVARIANT ResolvedAsDocumented
INVARIANT OneClassSet
ACTION_CONSTRAINT EmitCase
