SPECIFICATION Spec
CONSTANTS
  ScSeq <- FileScenarios
  Listed <- FileDevs
  Force <- ForceOn
INVARIANT C17_OpenOnce
INVARIANT C17_OpensCreated
INVARIANT C17_Identity
INVARIANT C17_CachedNotOpened
INVARIANT C17_CacheSame
INVARIANT C17_CacheKept
INVARIANT C18_CleanRepos
INVARIANT C18_RepairedReload
INVARIANT C27_Reject
INVARIANT C27_Params
INVARIANT C28_Location
