----------------------------- MODULE LoaderRepo -----------------------------
(***************************************************************************)
(* Multi-file model loading and the model repositories of textX            *)
(* (properties C17, C18, C27, C28).                                        *)
(*                                                                         *)
(* A session is a sequence of top-level calls (model_from_file /           *)
(* model_from_str, or a repair of the file system) on ONE metamodel.  A     *)
(* load is a stack of frames: the main frame and one nested frame per       *)
(* imported file that is neither visible from the importing model           *)
(* (repoLocal) nor known to the shared repository of the load (repoAll).    *)
(* One action per step that the file system, user code or an exception can  *)
(* observe or interrupt (DESIGN.md Appendix K):                              *)
(*   StartLoad CheckParams CacheStep OpenFile/SkipOpen Parse Register        *)
(*   ImportNext/ImportGlobHits/ImportGlobPick/ImportsDone NestedMP Resolve   *)
(*   ObjProcs ObjProcsDone MainMP Cleanup Repair                             *)
(*                                                                         *)
(* The scenario `sc` (chosen in Init) is the file system and the metamodel  *)
(* configuration; everything in it is JSON-shaped (sequences, strings,      *)
(* numbers, records keyed by file name) so that the same module judges      *)
(* TLC-enumerated scenarios and scenarios recorded by the harness.          *)
(*   sc.files    Seq(file)              sc.kind    provider kind            *)
(*   sc.imports  [file -> Seq(file | "*")]   ("*" = the glob pattern)       *)
(*   sc.glob     Seq(file)  files matched by the pattern                    *)
(*   sc.defs     [file -> Seq(name)]    sc.refs    [file -> Seq(name)]      *)
(*   sc.pad/ind  [file -> Nat] empty lines before / indentation of items    *)
(*   sc.grepo    metamodel has a global repository                          *)
(*   sc.builtin  Seq(name): elements of the builtin model (<<>> = none)     *)
(*   sc.declared Seq(param)             sc.fault   [kind, file]             *)
(*   sc.session  Seq([op |-> "load", file, how, given] | [op |-> "repair"]) *)
(*   sc.id       number of the scenario in its batch (given by the harness)  *)
(* Where the file system decides (order of globbed files) or the documents  *)
(* do not decide (which of several offending references is reported, which  *)
(* of several loaded models defining a name is taken) the module is         *)
(* nondeterministic.                                                        *)
(***************************************************************************)
EXTENDS Naturals, Sequences, FiniteSets, TLC, Json

CONSTANTS
  ScSeq,       \* sequence of scenario records (a behaviour runs one of them)
  Listed,      \* deviation clauses that may be switched on ({} = documented semantics)
  Force        \* TRUE: a listed clause is always taken (vacuity runs);
               \* FALSE: at every point where a listed clause would change the result
               \*        the behaviour branches into the documented and the deviating one

VARIABLES
  sc,          \* the scenario of this behaviour (an element of ScSeq)
  dev,         \* deviation clauses that have changed something in this behaviour
  step,        \* number of finished session operations
  fault,       \* the scenario's fault is still in the file system
  stack,       \* load frames, innermost last
  models,      \* model id -> [params, defs, refs, tg, nofile]
  repoAll,     \* file -> model id: the repository shared by all models of the
               \*   current load; with a global repository it outlives the load
  repoLocal,   \* model id -> set of files visible from that model
  opens,       \* file -> number of opens in the current top-level load
  created,     \* model ids created by the current top-level load
  before,      \* repoAll when the current top-level load began
  outcome,     \* result of the last finished top-level load
  hist         \* one summary per finished load (what the harness compares)

vars == <<sc, dev, step, fault, stack, models, repoAll, repoLocal, opens, created, before, outcome, hist>>

----------------------------------------------------------------------------
Range(s)   == {s[i] : i \in 1..Len(s)}
Files      == Range(sc.files)
NoneFile   == "<none>"
NoModel    == [f |-> "-", a |-> 0]
Builtin    == [f |-> "<builtin>", a |-> 0]
Pending    == [ok |-> FALSE, kind |-> "pending", file |-> NoneFile, line |-> 0, col |-> 0,
               model |-> NoModel, cul |-> <<"-", 0>>]
OkRes(m)   == [ok |-> TRUE, kind |-> "ok", file |-> NoneFile, line |-> 0, col |-> 0,
               model |-> m, cul |-> <<"-", 0>>]
\* cul = <<file, item line>> names the offending text (history only)
ErrRes(k, f, l, c, cul) == [ok |-> FALSE, kind |-> k, file |-> f, line |-> l, col |-> c,
                            model |-> NoModel, cul |-> cul]

IsGlobKind  == sc.kind \in {"plain_glob", "fqn_glob"}
IsPlainKind == sc.kind \in {"plain_uri", "plain_search", "plain_glob"}
\* user-level provider wrapper answering Postponed for the name "pp"
CanPostpone == sc.kind # "rrel"

Idle    == stack = <<>>
Top     == stack[Len(stack)]
WithTop(fr) == [stack EXCEPT ![Len(stack)] = fr]
Op      == sc.session[step + 1]          \* the operation in progress / next
LastOp  == sc.session[step]              \* the operation just finished
Attempt == step + 1

Frame(f, main) == [file |-> f, main |-> main, pc |-> IF main THEN "check" ELSE "open",
                   m |-> NoModel, todo |-> <<>>, gl |-> {}, left |-> {}, nc |-> FALSE]

----------------------------------------------------------------------------
\* The file system: content of a file, with the scenario's fault while present
FaultIn(f, k) == fault /\ sc.fault.kind = k /\ sc.fault.file = f

DefsOf(f) == sc.defs[f] \o
   (IF FaultIn(f, "objproc") THEN <<"bado">>
    ELSE IF FaultIn(f, "modelproc") THEN <<"badm">>
    ELSE IF FaultIn(f, "notunique") THEN <<sc.defs[f][1]>>
    ELSE <<>>)
RefsOf(f) == sc.refs[f] \o
   (IF FaultIn(f, "unknown") THEN <<"nope">>
    ELSE IF FaultIn(f, "postponed") THEN <<"pp">>
    ELSE <<>>)

\* import statements that take effect: a GlobalRepo provider loads its file
\* pattern for every model and ignores import statements
Stmts(f) == IF IsGlobKind THEN <<"*">> ELSE sc.imports[f]

\* Text layout (the renderer of the harness follows it; checked there):
\*   pad empty lines; one line per import statement, definition, reference
\*   (in this order), each indented by ind; a syntax fault is a last line "@@".
\*   import "x.m" = 12 characters, "def " / "use " = 4.
LineLens(f, defs, refs, broken) ==
     [i \in 1..sc.pad[f] |-> 0]
  \o [i \in 1..Len(sc.imports[f]) |-> sc.ind[f] + 12]
  \o [i \in 1..Len(defs) |-> sc.ind[f] + 4 + Len(defs[i])]
  \o [i \in 1..Len(refs) |-> sc.ind[f] + 4 + Len(refs[i])]
  \o (IF broken THEN <<sc.ind[f] + 2>> ELSE <<>>)

RECURSIVE SumTo(_, _)
SumTo(lens, k) == IF k = 0 THEN 0 ELSE SumTo(lens, k - 1) + lens[k] + 1   \* characters incl. newlines of lines 1..k
\* 0-based offset of (line, col)
Off(lens, line, col) == SumTo(lens, line - 1) + col - 1
\* Arpeggio's pos_to_linecol on a text whose lines all end with a newline
LineColIn(lens, off) ==
  LET ends == [i \in 1..Len(lens) |-> SumTo(lens, i) - 1]
      ln   == Cardinality({i \in 1..Len(lens) : ends[i] < off})
  IN  IF ln = 0 THEN <<1, off + 1>> ELSE <<ln + 1, off - ends[ln]>>

ModelLens(x) == LineLens(x.f, models[x].defs, models[x].refs, FALSE)
RefLine(x, i) == sc.pad[x.f] + Len(sc.imports[x.f]) + Len(models[x].defs) + i
RefCol(x)     == sc.ind[x.f] + 5
GarbageLine(f) == sc.pad[f] + Len(sc.imports[f]) + Len(DefsOf(f)) + Len(RefsOf(f)) + 1
FileLabel(x)  == IF models[x].nofile THEN NoneFile ELSE x.f

----------------------------------------------------------------------------
\* Lookup (C17): the model itself, then the models loaded by it, then builtin models
DefSeq(x)    == IF x = Builtin THEN sc.builtin ELSE models[x].defs
HasDef(x, n) == n \in Range(DefSeq(x))
Count(x, n)  == Cardinality({j \in 1..Len(DefSeq(x)) : DefSeq(x)[j] = n})
FirstIdx(x, n) == CHOOSE j \in 1..Len(DefSeq(x)) :
                     DefSeq(x)[j] = n /\ \A k \in 1..(j - 1) : DefSeq(x)[k] # n
LocalModels(m) == {repoAll[g] : g \in repoLocal[m]}
Tier(m, n) ==
  IF HasDef(m, n) THEN {m}
  ELSE LET L == {x \in LocalModels(m) : HasDef(x, n)} IN
       IF L # {} THEN L
       ELSE IF sc.builtin # <<>> /\ HasDef(Builtin, n) THEN {Builtin} ELSE {}
Targets(m, n) == {[m |-> x, i |-> FirstIdx(x, n)] : x \in Tier(m, n)}

RefName(m, i)   == models[m].refs[i]
IsPostponed(m, i) == CanPostpone /\ RefName(m, i) = "pp"
IsUnknown(m, i)   == ~IsPostponed(m, i) /\ Tier(m, RefName(m, i)) = {}
Dups(m, i)        == {x \in Tier(m, RefName(m, i)) : Count(x, RefName(m, i)) > 1}
IsNotUnique(m, i) == ~IsPostponed(m, i) /\ IsPlainKind /\ Dups(m, i) # {}

----------------------------------------------------------------------------
\* What the harness can observe when a top-level load has finished
SummaryTg(incl, ms) ==
  UNION {{[m |-> x, i |-> i, to |-> ms[x].tg[i]] : i \in 1..Len(ms[x].tg)} : x \in incl}

Summary(oc, ra, rl, ms, ops) ==
  LET incl == IF oc.ok THEN {ra[g] : g \in DOMAIN ra} \cup {oc.model} ELSE {} IN
  [ res    |-> [ok |-> oc.ok, kind |-> oc.kind, file |-> oc.file, line |-> oc.line, col |-> oc.col,
                model |-> oc.model],
    grepo  |-> IF sc.grepo THEN {[f |-> g, m |-> ra[g]] : g \in DOMAIN ra} ELSE {},
    incl   |-> incl,
    local  |-> {[m |-> x, fs |-> rl[x]] : x \in incl},
    opens  |-> {[f |-> g, n |-> ops[g]] : g \in {h \in DOMAIN ops : ops[h] > 0}},
    params |-> {[m |-> x, ps |-> ms[x].params] : x \in incl},
    tg     |-> SummaryTg(incl, ms) ]

\* a top-level call returns or raises: the caller sees `oc`
Finish(oc) ==
  /\ outcome' = oc
  /\ stack' = <<>>
  /\ step' = step + 1
  /\ hist' = Append(hist, Summary(oc, repoAll', repoLocal', models', opens'))

\* an exception leaves all frames; the handlers run in Cleanup
Fail(oc, nocleanup) ==
  /\ outcome' = oc
  /\ stack' = << [Frame("-", TRUE) EXCEPT !.pc = "cleanup", !.nc = nocleanup] >>

Purge(ra, cr) == [g \in {h \in DOMAIN ra : ra[h] \notin cr} |-> ra[g]]

----------------------------------------------------------------------------
InitRest ==
  /\ dev = {}
  /\ step = 0 /\ fault = TRUE /\ stack = <<>>
  /\ models = <<>> /\ repoAll = <<>> /\ repoLocal = <<>>
  /\ opens = [f \in Range(sc.files) |-> 0]
  /\ created = {} /\ before = <<>> /\ outcome = Pending /\ hist = <<>>

\* (the bound S holds the evaluated sequence: TLC would re-evaluate ScSeq at every use)
Init == (\E S \in {ScSeq} : \E i \in 1..Len(S) : sc = S[i]) /\ InitRest

\* the failing file is corrected between two loads
Repair ==
  /\ Idle /\ step < Len(sc.session) /\ Op.op = "repair"
  /\ fault' = FALSE /\ step' = step + 1
  /\ UNCHANGED <<sc, dev, stack, models, repoAll, repoLocal, opens, created, before, outcome, hist>>

\* model_from_file / model_from_str is called
StartLoad ==
  /\ Idle /\ step < Len(sc.session) /\ Op.op = "load"
  /\ stack' = << Frame(Op.file, TRUE) >>
  /\ opens' = [f \in Files |-> 0]
  /\ created' = {}
  /\ repoAll' = IF sc.grepo THEN repoAll ELSE <<>>
  /\ before' = repoAll'
  /\ outcome' = Pending
  /\ UNCHANGED <<sc, dev, step, fault, models, repoLocal, hist>>

ParamsOk(op) == Range(op.given) \subseteq Range(sc.declared) \cup {"project_root"}

\* C27: undeclared parameter -> TextXError before anything else happens
CheckParams ==
  /\ ~Idle /\ Top.pc = "check"
  /\ UNCHANGED <<sc, dev, fault, models, repoAll, repoLocal, opens, created, before>>
  /\ IF ParamsOk(Op)
     THEN /\ stack' = WithTop([Top EXCEPT !.pc = "cache"])
          /\ UNCHANGED <<step, outcome, hist>>
     ELSE Finish(ErrRes("params", NoneFile, 0, 0, <<"-", 0>>))

\* C17: with a global repository a file that is already cached is not loaded again
CacheStep ==
  /\ ~Idle /\ Top.pc = "cache"
  /\ IF sc.grepo /\ Op.how # "str" /\ Top.file \in DOMAIN repoAll
     THEN stack' = WithTop([Top EXCEPT !.pc = "main_mp", !.m = repoAll[Top.file]])
     ELSE stack' = WithTop([Top EXCEPT !.pc = "open"])
  /\ UNCHANGED <<sc, dev, step, fault, models, repoAll, repoLocal, opens, created, before, outcome, hist>>

ReadsFile == ~(Top.main /\ Op.how # "file")       \* a string was given for the main model

OpenFile(f) ==
  /\ ~Idle /\ Top.pc = "open" /\ Top.file = f /\ ReadsFile
  /\ opens' = [opens EXCEPT ![f] = @ + 1]
  /\ stack' = WithTop([Top EXCEPT !.pc = "parse"])
  /\ UNCHANGED <<sc, dev, step, fault, models, repoAll, repoLocal, created, before, outcome, hist>>

SkipOpen ==
  /\ ~Idle /\ Top.pc = "open" /\ ~ReadsFile
  /\ stack' = WithTop([Top EXCEPT !.pc = "parse"])
  /\ UNCHANGED <<sc, dev, step, fault, models, repoAll, repoLocal, opens, created, before, outcome, hist>>

\* parse + object construction: a new model, or a syntax error at the offending text (C28)
Parse ==
  /\ ~Idle /\ Top.pc = "parse"
  /\ LET f == Top.file
         nofile == Top.main /\ Op.how = "str"
     IN IF FaultIn(f, "syntax")
        THEN /\ Fail(ErrRes("syntax", IF nofile THEN NoneFile ELSE f, GarbageLine(f), sc.ind[f] + 1,
                            <<f, GarbageLine(f)>>), FALSE)
             /\ UNCHANGED <<models, created, repoLocal>>
        ELSE LET m == [f |-> f, a |-> Attempt] IN
             /\ models' = (m :> [params |-> Op.given, defs |-> DefsOf(f), refs |-> RefsOf(f),
                                 tg |-> <<>>, nofile |-> nofile]) @@ models
             /\ created' = created \cup {m}
             /\ repoLocal' = (m :> {}) @@ repoLocal
             /\ stack' = WithTop([Top EXCEPT !.pc = "register", !.m = m])
             /\ UNCHANGED outcome
  /\ UNCHANGED <<sc, dev, step, fault, repoAll, opens, before, hist>>

\* pre_ref_resolution_callback: the model enters the shared repository -- for the
\* main model only when the metamodel has a global repository (otherwise at its
\* first import, see ImportNext)
Register ==
  /\ ~Idle /\ Top.pc = "register"
  /\ repoAll' = IF (sc.grepo \/ ~Top.main) /\ ~models[Top.m].nofile
                THEN (Top.file :> Top.m) @@ repoAll ELSE repoAll
  /\ stack' = WithTop([Top EXCEPT !.pc = "imports", !.todo = Stmts(Top.file)])
  /\ UNCHANGED <<sc, dev, step, fault, models, repoLocal, opens, created, before, outcome, hist>>

\* one imported file g for the model of frame fr2, `ra` the shared repository:
\* visible already | known to the shared repository | nested load
DoImport(g, fr2, ra) ==
  /\ repoAll' = ra
  /\ IF g \in repoLocal[fr2.m]
     THEN /\ stack' = WithTop(fr2) /\ UNCHANGED repoLocal
     ELSE IF g \in DOMAIN ra
     THEN /\ stack' = WithTop(fr2)
          /\ repoLocal' = [repoLocal EXCEPT ![fr2.m] = @ \cup {g}]
     ELSE /\ stack' = Append(WithTop(fr2), Frame(g, FALSE)) /\ UNCHANGED repoLocal

ImportNext ==
  /\ ~Idle /\ Top.pc = "imports" /\ Top.gl = {} /\ Top.todo # <<>>
  /\ LET s   == Head(Top.todo)
         fr2 == [Top EXCEPT !.todo = Tail(@)]
         reg == IF Top.file \in DOMAIN repoAll \/ models[Top.m].nofile
                THEN repoAll ELSE (Top.file :> Top.m) @@ repoAll
     IN IF s = "*"
        THEN /\ stack' = WithTop([fr2 EXCEPT !.gl = Range(sc.glob)])
             /\ repoAll' = reg /\ UNCHANGED repoLocal
        ELSE DoImport(s, fr2, reg)
  /\ UNCHANGED <<sc, dev, step, fault, models, opens, created, before, outcome, hist>>

\* Globbed files that are already visible or known need no load; in which order they are
\* met is unobservable (a file once known stays known during a load), so they are taken
\* first and together.  For the others the file system decides the order.
GlobHits == {g \in Top.gl : g \in repoLocal[Top.m] \/ g \in DOMAIN repoAll}

ImportGlobHits ==
  /\ ~Idle /\ Top.pc = "imports" /\ GlobHits # {}
  /\ repoLocal' = [repoLocal EXCEPT ![Top.m] = @ \cup GlobHits]
  /\ stack' = WithTop([Top EXCEPT !.gl = @ \ GlobHits])
  /\ UNCHANGED <<sc, dev, step, fault, models, repoAll, opens, created, before, outcome, hist>>

ImportGlobPick ==
  /\ ~Idle /\ Top.pc = "imports" /\ Top.gl # {} /\ GlobHits = {}
  /\ \E g \in Top.gl : DoImport(g, [Top EXCEPT !.gl = @ \ {g}], repoAll)
  /\ UNCHANGED <<sc, dev, step, fault, models, opens, created, before, outcome, hist>>

ImportsDone ==
  /\ ~Idle /\ Top.pc = "imports" /\ Top.gl = {} /\ Top.todo = <<>>
  /\ stack' = WithTop([Top EXCEPT !.pc = IF Top.main THEN "resolve" ELSE "nested_mp"])
  /\ UNCHANGED <<sc, dev, step, fault, models, repoAll, repoLocal, opens, created, before, outcome, hist>>

MPFails(m) == "badm" \in Range(models[m].defs)

\* model processors of an imported model run before any reference is resolved;
\* then the importing model sees it
NestedMP ==
  /\ ~Idle /\ Top.pc = "nested_mp"
  /\ IF MPFails(Top.m)
     THEN /\ Fail(ErrRes("modelproc", NoneFile, 0, 0, <<Top.file, 0>>), FALSE)
          /\ UNCHANGED repoLocal
     ELSE LET parent == stack[Len(stack) - 1] IN
          /\ stack' = SubSeq(stack, 1, Len(stack) - 1)
          /\ repoLocal' = [repoLocal EXCEPT ![parent.m] = @ \cup {Top.file}]
          /\ UNCHANGED outcome
  /\ UNCHANGED <<sc, dev, step, fault, models, repoAll, opens, created, before, hist>>

\* Deviation clauses: D ranges over the sets of applicable listed clauses; outside
\* vacuity runs only sets are taken in which every clause changes the result
DevChoices(App) == IF Force THEN {Listed \cap App} ELSE SUBSET (Listed \cap App)
Effective(D, F(_)) == {c \in D : F(D \ {c}) # F(D)}

\* where an error about reference i of model m is located (C28)
DocLoc(m, i) == [file |-> FileLabel(m), line |-> RefLine(m, i), col |-> RefCol(m)]
RefOff(m, i) == Off(ModelLens(m), RefLine(m, i), RefCol(m))
UnresolvableLoc(m, i, mainm, D) ==
  LET lc == IF "UnresolvableUsesMainParser" \in D
            THEN LineColIn(ModelLens(mainm), RefOff(m, i))
            ELSE <<RefLine(m, i), RefCol(m)>>
  IN [file |-> IF "UnresolvableWithoutFilename" \in D THEN NoneFile ELSE FileLabel(m),
      line |-> lc[1], col |-> lc[2]]
NotUniqueLoc(m, i, x, D) ==
  IF "NotUniqueUsesForeignParser" \in D
  THEN LET lc == LineColIn(ModelLens(x), RefOff(m, i)) IN
       [file |-> FileLabel(x), line |-> lc[1], col |-> lc[2]]
  ELSE DocLoc(m, i)

RefsUnder == UNION {{<<m, i>> : i \in 1..Len(models[m].refs)} : m \in created}

\* reference resolution over all models under construction
Resolve ==
  /\ ~Idle /\ Top.pc = "resolve"
  /\ LET R == RefsUnder
         U == {r \in R : IsUnknown(r[1], r[2])}
         N == {r \in R : IsNotUnique(r[1], r[2])}
         P == {r \in R : IsPostponed(r[1], r[2])}
     IN IF U \cup N # {}
        THEN \* raised at the first attempt on such a reference
             /\ \/ \E r \in U : LET l == DocLoc(r[1], r[2]) IN
                     /\ Fail(ErrRes("unknown", l.file, l.line, l.col, <<r[1].f, RefLine(r[1], r[2])>>), FALSE)
                     /\ UNCHANGED dev
                \/ \E r \in N : \E x \in Dups(r[1], r[2]) :
                   \E D \in DevChoices({"NotUniqueUsesForeignParser"}) :
                     LET L(DD) == NotUniqueLoc(r[1], r[2], x, DD)
                         l == L(D) IN
                     /\ Force \/ Effective(D, L) = D
                     /\ dev' = dev \cup Effective(D, L)
                     /\ Fail(ErrRes("notunique", l.file, l.line, l.col, <<r[1].f, RefLine(r[1], r[2])>>), FALSE)
             /\ UNCHANGED models
        ELSE IF P # {}
        THEN \* no progress: the references still postponed are unresolvable
             /\ \E r \in P :
                \E D \in DevChoices({"UnresolvableWithoutFilename", "UnresolvableUsesMainParser"}) :
                  LET L(DD) == UnresolvableLoc(r[1], r[2], Top.m, DD)
                      l == L(D) IN
                  /\ Force \/ Effective(D, L) = D
                  /\ dev' = dev \cup Effective(D, L)
                  /\ Fail(ErrRes("unresolvable", l.file, l.line, l.col, <<r[1].f, RefLine(r[1], r[2])>>), FALSE)
             /\ UNCHANGED models
        ELSE /\ models' = [x \in DOMAIN models |->
                             IF x \in created
                             THEN [models[x] EXCEPT !.tg = [i \in 1..Len(models[x].refs) |->
                                                              Targets(x, models[x].refs[i])]]
                             ELSE models[x]]
             /\ stack' = WithTop([Top EXCEPT !.pc = "objprocs", !.left = created])
             /\ UNCHANGED <<outcome, dev>>
  /\ UNCHANGED <<sc, step, fault, repoAll, repoLocal, opens, created, before, hist>>

\* object processors, model by model
ObjProcs(m) ==
  /\ ~Idle /\ Top.pc = "objprocs" /\ m \in Top.left
  /\ IF "bado" \in Range(models[m].defs)
     THEN Fail(ErrRes("objproc", NoneFile, 0, 0, <<m.f, 0>>), FALSE)
     ELSE /\ stack' = WithTop([Top EXCEPT !.left = @ \ {m}]) /\ UNCHANGED outcome
  /\ UNCHANGED <<sc, dev, step, fault, models, repoAll, repoLocal, opens, created, before, hist>>

ObjProcsDone ==
  /\ ~Idle /\ Top.pc = "objprocs" /\ Top.left = {}
  /\ stack' = WithTop([Top EXCEPT !.pc = "main_mp"])
  /\ UNCHANGED <<sc, dev, step, fault, models, repoAll, repoLocal, opens, created, before, outcome, hist>>

\* model processors of the main model (also on a cached model), then return.
\* C18 demands the cleanup for this failure too; the clause
\* NoCleanupOnModelProcessorFailure is what metamodel.internal_model_from_file does.
MainMP ==
  /\ ~Idle /\ Top.pc = "main_mp"
  /\ UNCHANGED <<sc, fault, models, repoAll, repoLocal, opens, created, before>>
  /\ IF MPFails(Top.m)
     THEN LET c == "NoCleanupOnModelProcessorFailure"
              matters == Purge(repoAll, created) # repoAll IN
          /\ \E nc \in (IF c \in Listed /\ matters THEN (IF Force THEN {TRUE} ELSE {FALSE, TRUE})
                         ELSE {FALSE}) :
                /\ Fail(ErrRes("modelproc", NoneFile, 0, 0, <<Top.file, 0>>), nc)
                /\ dev' = IF nc THEN dev \cup {c} ELSE dev
          /\ UNCHANGED <<step, hist>>
     ELSE Finish(OkRes(Top.m)) /\ UNCHANGED dev

\* the exception handlers: no model of this attempt stays in a repository
Cleanup ==
  /\ ~Idle /\ Top.pc = "cleanup"
  /\ repoAll' = IF Top.nc THEN repoAll ELSE Purge(repoAll, created)
  /\ UNCHANGED <<sc, dev, fault, models, repoLocal, opens, created, before>>
  /\ Finish(outcome)

\* a finished session stutters (every other state must have a successor)
Stutter == Idle /\ step = Len(sc.session) /\ UNCHANGED vars

Next ==
  \/ Stutter
  \/ Repair \/ StartLoad \/ CheckParams \/ CacheStep
  \/ \E f \in Files : OpenFile(f)
  \/ SkipOpen \/ Parse \/ Register \/ ImportNext \/ ImportGlobHits \/ ImportGlobPick \/ ImportsDone
  \/ NestedMP \/ Resolve
  \/ \E m \in DOMAIN models : ObjProcs(m)
  \/ ObjProcsDone \/ MainMP \/ Cleanup

Spec == Init /\ [][Next]_vars

----------------------------------------------------------------------------
\* Properties.  They are stated for the documented semantics; a configuration
\* with a deviation clause switched on must violate the corresponding one.
JustLoaded == Idle /\ step > 0 /\ LastOp.op = "load"
Incl       == {repoAll[g] : g \in DOMAIN repoAll} \cup {outcome.model}
Zero       == [f \in Files |-> 0]

\* C17: no file is opened twice during one top-level load ...
C17_OpenOnce == \A f \in Files : opens[f] <= 1
\* ... and exactly the files of the models created by the load are opened
C17_OpensCreated ==
  JustLoaded /\ outcome.ok =>
    \A f \in Files : opens[f] = IF \E m \in created : m.f = f /\ ~(m = outcome.model /\ LastOp.how # "file")
                                THEN 1 ELSE 0
\* C17: one model per file, and every reference to an element of a file points into that model
C17_Identity ==
  JustLoaded /\ outcome.ok =>
    /\ \A m \in created : m = outcome.model \/ (m.f \in DOMAIN repoAll /\ repoAll[m.f] = m)
    /\ \A m \in Incl : \A i \in 1..Len(models[m].tg) : \A t \in models[m].tg[i] :
          \/ t.m = Builtin
          \/ t.m = m
          \/ (t.m.f \in DOMAIN repoAll /\ repoAll[t.m.f] = t.m)
    /\ \A m \in Incl : \A i \in 1..Len(models[m].tg) : models[m].tg[i] # {}
\* C17: a repeated load with a global repository returns the cached model, untouched
C17_CacheSame ==
  JustLoaded /\ sc.grepo /\ LastOp.how # "str" /\ outcome.ok =>
    /\ repoAll[LastOp.file] = outcome.model
    /\ (LastOp.file \in DOMAIN before =>
          outcome.model = before[LastOp.file] /\ created = {} /\ opens = Zero)
\* C18: after a failure no model of the attempt is in a surviving repository,
\* models cached earlier are still there
C18_CleanRepos ==
  JustLoaded /\ ~outcome.ok =>
    /\ \A g \in DOMAIN repoAll : repoAll[g] \notin created
    /\ (sc.grepo => repoAll = before)
\* C18: once the failing file is corrected the load succeeds
C18_RepairedReload ==
  JustLoaded /\ ~fault /\ ParamsOk(LastOp) => outcome.ok
\* C27: rejected iff an undeclared name is given, and then nothing has happened
C27_Reject ==
  JustLoaded =>
    /\ (outcome.kind = "params") <=> ~ParamsOk(LastOp)
    /\ (outcome.kind = "params" => created = {} /\ opens = Zero /\ repoAll = before)
\* C27: every model created by the load exposes exactly the given parameters
C27_Params ==
  /\ ~Idle => \A m \in created : models[m].params = Op.given
  /\ JustLoaded => \A m \in created : models[m].params = LastOp.given
\* C28: the error names the file of the offending text and its line/column there
TextOf(f) == LineLens(f, DefsOf(f), RefsOf(f), FaultIn(f, "syntax"))
C28_Location ==
  JustLoaded /\ outcome.kind \in {"syntax", "unknown", "unresolvable", "notunique"} =>
    LET f  == outcome.cul[1]
        ln == outcome.cul[2]
        c  == IF outcome.kind = "syntax" THEN sc.ind[f] + 1 ELSE sc.ind[f] + 5
    IN /\ outcome.file = IF LastOp.how = "str" /\ f = LastOp.file THEN NoneFile ELSE f
       /\ outcome.line = ln /\ outcome.col = c
       \* the position is the one a parser of that file's text computes
       /\ LineColIn(TextOf(f), Off(TextOf(f), ln, c)) = <<ln, c>>

\* emitted once per finished behaviour: what the implementation must show
Done == Idle /\ step = Len(sc.session)
EmitOut == Done => PrintT("OUT|" \o ToJson([id |-> sc.id, dev |-> dev, hist |-> hist]))

=============================================================================
