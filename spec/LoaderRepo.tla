----------------------------- MODULE LoaderRepo -----------------------------
(***************************************************************************)
(* Multi-file model loading and the model repositories of textX            *)
(* (properties C17, C18, C27, C28).                                        *)
(*                                                                         *)
(* A session is a sequence of top-level calls (model_from_file /           *)
(* model_from_str, or a repair of the file system) on the metamodels of one *)
(* or two registered languages.  A load is a stack of frames: the main      *)
(* frame and one nested frame per imported file that is neither visible     *)
(* from the importing model (repoLocal) nor known to the repository shared  *)
(* by the models of the load (repoAll).  One action per step that the file  *)
(* system, user code or an exception can observe or interrupt (DESIGN.md    *)
(* Appendix K):                                                             *)
(*   StartLoad CheckParams CacheStep OpenFile/SkipOpen Parse Register        *)
(*   ImportNext/ImportGlobHits/ImportGlobPick/ImportsDone NestedCache        *)
(*   NestedMP Resolve ObjProcs ObjProcsDone MainMP Cleanup Repair            *)
(*                                                                         *)
(* The scenario `sc` (chosen in Init) is the file system and the metamodel  *)
(* configuration; everything in it is JSON-shaped (sequences, strings,      *)
(* numbers, records keyed by file name) so that the same module judges      *)
(* TLC-enumerated scenarios and scenarios recorded by the harness.          *)
(*   sc.files    Seq(file)              sc.kind    provider kind            *)
(*   sc.lang     [file -> "A" | "B"]    language (metamodel) of the file     *)
(*   sc.imports  [file -> Seq(file | "*")]   ("*" = the glob pattern)       *)
(*   sc.glob     Seq(file)  files matched by the pattern                    *)
(*   sc.defs     [file -> Seq(name)]    definitions, one per line            *)
(*   sc.refs     [file -> Seq(name)]    single references, one per line      *)
(*   sc.lrefs    [file -> Seq(name)]    one list reference `refs x, y, z`    *)
(*   sc.pad/ind  [file -> Nat] empty lines before / indentation of items    *)
(*   sc.deco     [file -> Nat] length of a comment (with the blank after it)  *)
(*               in front of every item of the file (0 = none)               *)
(*   sc.repo     [A, B -> "-" | "r1" | "r2"] global repository of a language *)
(*               ("-" none; the same name = one shared repository object)    *)
(*   sc.builtin  Seq(name): elements of the builtin model (<<>> = none)     *)
(*   sc.declared [A, B -> Seq(param)]   sc.fault   [kind, file, at]          *)
(*   sc.session  Seq([op |-> "load", file, how, given, vals] | [op |-> "repair"] *)
(*                   | [op |-> "declare", file |-> language, given |-> names]) *)
(*               how: "file" model_from_file, "str" model_from_str,          *)
(*               "strfile" model_from_str(file_name=..), "app" the file is    *)
(*               loaded into a repository owned by the application            *)
(*               (GlobalRepo.load_models_in_model_repo)                       *)
(*   sc.id       number of the scenario in its batch (given by the harness)  *)
(* Where the file system decides (order of globbed files) or the documents  *)
(* do not decide (which of several offending references is reported, which  *)
(* of several loaded models defining a name is taken) the module is         *)
(* nondeterministic.                                                        *)
(***************************************************************************)
EXTENDS Naturals, Sequences, FiniteSets, TLC, Json

CONSTANTS
  ScSeq,       \* sequence of scenario records (a behaviour runs one of them)
  Listed,      \* deviation clauses that may be switched on ({} = documented semantics)
  Force        \* TRUE: a listed clause is always taken (vacuity runs);
               \* FALSE: at every point where a listed clause would change the result
               \*        the behaviour branches into the documented and the deviating one

VARIABLES
  sc,          \* the scenario of this behaviour (an element of ScSeq)
  dev,         \* deviation clauses that have changed something in this behaviour
  step,        \* number of finished session operations
  fault,       \* the scenario's fault is still in the file system
  stack,       \* load frames, innermost last
  models,      \* model id -> [src, params, defs, uses, lrefs, tg, nofile]
  repos,       \* repository -> (key -> model id).  "r1", "r2": global repositories of
               \*   the metamodels, "app": a repository owned by the application (they
               \*   outlive a load); "tmp": the repository created by a load whose
               \*   metamodel has none.  One repository is shared by all models of a load
               \*   (repoAll below): "app" when the application loads into its own
               \*   repository, otherwise the one of the main model's language.
  repoLocal,   \* model id -> set of keys visible from that model
  opens,       \* file -> number of opens in the current top-level load
  created,     \* model ids created by the current top-level load
  before,      \* repos when the current top-level load began
  outcome,     \* result of the last finished top-level load
  hist         \* one summary per finished load (what the harness compares)

vars == <<sc, dev, step, fault, stack, models, repos, repoLocal, opens, created, before, outcome, hist>>

----------------------------------------------------------------------------
Range(s)   == {s[i] : i \in 1..Len(s)}
Files      == Range(sc.files)
NoneFile   == "<none>"
NoModel    == [f |-> "-", a |-> 0]
Builtin    == [f |-> "<builtin>", a |-> 0]
Rids       == {"r1", "r2", "app"}
NoCul      == <<"-", 0, "-">>
Pending    == [ok |-> FALSE, kind |-> "pending", file |-> NoneFile, line |-> 0, col |-> 0,
               model |-> NoModel, cul |-> NoCul]
OkRes(m)   == [ok |-> TRUE, kind |-> "ok", file |-> NoneFile, line |-> 0, col |-> 0,
               model |-> m, cul |-> NoCul]
\* cul = <<file, reference index | 0 for the syntax fault, file name of that model | NoneFile>>
\* names the offending text (history only)
ErrRes(k, f, l, c, cul) == [ok |-> FALSE, kind |-> k, file |-> f, line |-> l, col |-> c,
                            model |-> NoModel, cul |-> cul]

IsGlobKind  == sc.kind \in {"plain_glob", "fqn_glob"}
IsPlainKind == sc.kind \in {"plain_uri", "plain_search", "plain_glob"}
\* user-level provider wrapper answering Postponed for the name "pp"
CanPostpone == sc.kind # "rrel"

Idle    == stack = <<>>
Top     == stack[Len(stack)]
WithTop(fr) == [stack EXCEPT ![Len(stack)] = fr]
Op      == sc.session[step + 1]          \* the operation in progress / next
LastOp  == sc.session[step]              \* the operation just finished
Attempt == step + 1

\* the global repository of the language of file f ("-" = none)
Rid(f)     == sc.repo[sc.lang[f]]
RidOf(op)  == IF op.how = "app" THEN "app" ELSE IF Rid(op.file) = "-" THEN "tmp" ELSE Rid(op.file)
CurRid     == RidOf(Op)                  \* repository shared by the models of the current load
repoAll    == repos[CurRid]
SetAll(ra) == [repos EXCEPT ![CurRid] = ra]

Frame(f, main) == [file |-> f, main |-> main, pc |-> IF main THEN "check" ELSE "ncache",
                   m |-> NoModel, todo |-> <<>>, gl |-> {}, left |-> {}, nc |-> FALSE]

\* A model without file name (model_from_str) that takes part in multi-file loading is
\* stored under an invented key of its own: every such model has its own repository entry,
\* which is removed when its load fails and stays (like the entry of a file) when it
\* succeeds.  Clause StringModelsShareOneKey (vacuity runs only): one key for all of them,
\* what update_model_in_repo_based_on_filename did before a9e9535.
Key(m) == IF models[m].nofile
          THEN (IF Force /\ "StringModelsShareOneKey" \in Listed THEN "~" ELSE "~" \o ToString(m.a))
          ELSE m.f

----------------------------------------------------------------------------
\* The file system: content of a file, with the scenario's fault while present
FaultIn(f, k) == fault /\ sc.fault.kind = k /\ sc.fault.file = f
BadRef(f) == IF FaultIn(f, "unknown") THEN <<"nope">>
             ELSE IF FaultIn(f, "postponed") THEN <<"pp">> ELSE <<>>

DefsOf(f) == sc.defs[f] \o
   (IF FaultIn(f, "objproc") THEN <<"bado">>
    ELSE IF FaultIn(f, "modelproc") THEN <<"badm">>
    ELSE IF FaultIn(f, "notunique") THEN <<sc.defs[f][1]>>
    ELSE <<>>)
UsesOf(f)  == sc.refs[f]  \o (IF sc.fault.at = "list" THEN <<>> ELSE BadRef(f))
LrefsOf(f) == sc.lrefs[f] \o (IF sc.fault.at = "list" THEN BadRef(f) ELSE <<>>)
\* the builtin model is built once, from a string, when the metamodel is created
BuiltinDefs == sc.builtin \o (IF sc.fault.kind = "notunique" /\ sc.fault.file = "<builtin>"
                              THEN <<sc.builtin[1]>> ELSE <<>>)

\* import statements that take effect: a GlobalRepo provider loads its file
\* pattern for every model and ignores import statements
Stmts(f) == IF IsGlobKind THEN <<"*">> ELSE sc.imports[f]

\* Text layout (the renderer of the harness follows it; checked there):
\*   pad empty lines; one line per import statement, definition, single reference
\*   (in this order), then one line `refs x, y, z` for the list reference, each indented
\*   by ind; a syntax fault is a last line "@@".
\*   import "x.ma" = 13 characters, "def " / "use " = 4, "refs " = 5, ", " = 2.
\*   With deco > 0 every item is preceded, after the indentation, by a comment and a blank
\*   of together deco characters, none of them a line feed (which characters is up to the
\*   renderer: a position counts characters, and lines are separated by line feeds only).
Pre(f) == sc.ind[f] + sc.deco[f]          \* characters in front of an item on its line
RECURSIVE SumLen(_, _)
SumLen(names, k) == IF k = 0 THEN 0 ELSE SumLen(names, k - 1) + Len(names[k])
LineLens(f, defs, uses, lrefs, broken) ==
     [i \in 1..sc.pad[f] |-> 0]
  \o [i \in 1..Len(sc.imports[f]) |-> Pre(f) + 13]
  \o [i \in 1..Len(defs) |-> Pre(f) + 4 + Len(defs[i])]
  \o [i \in 1..Len(uses) |-> Pre(f) + 4 + Len(uses[i])]
  \o (IF lrefs # <<>> THEN <<Pre(f) + 5 + SumLen(lrefs, Len(lrefs)) + 2 * (Len(lrefs) - 1)>> ELSE <<>>)
  \o (IF broken THEN <<Pre(f) + 2>> ELSE <<>>)
\* position of reference i (single references first, then the elements of the list)
RefLineIn(f, defs, uses, i) == sc.pad[f] + Len(sc.imports[f]) + Len(defs)
                                 + (IF i <= Len(uses) THEN i ELSE Len(uses) + 1)
RefColIn(f, uses, lrefs, i) == IF i <= Len(uses) THEN Pre(f) + 5
                               ELSE LET j == i - Len(uses) IN
                                    Pre(f) + 6 + SumLen(lrefs, j - 1) + 2 * (j - 1)

RECURSIVE SumTo(_, _)
SumTo(lens, k) == IF k = 0 THEN 0 ELSE SumTo(lens, k - 1) + lens[k] + 1   \* characters incl. newlines of lines 1..k
\* 0-based offset of (line, col)
Off(lens, line, col) == SumTo(lens, line - 1) + col - 1
\* Arpeggio's pos_to_linecol on a text whose lines all end with a newline
LineColIn(lens, off) ==
  LET ends == [i \in 1..Len(lens) |-> SumTo(lens, i) - 1]
      ln   == Cardinality({i \in 1..Len(lens) : ends[i] < off})
  IN  IF ln = 0 THEN <<1, off + 1>> ELSE <<ln + 1, off - ends[ln]>>

AllRefs(x)   == models[x].uses \o models[x].lrefs
ModelLens(x) == IF x = Builtin THEN [i \in 1..Len(BuiltinDefs) |-> 4 + Len(BuiltinDefs[i])]
                ELSE LineLens(models[x].src, models[x].defs, models[x].uses, models[x].lrefs, FALSE)
RefLine(x, i) == RefLineIn(models[x].src, models[x].defs, models[x].uses, i)
RefCol(x, i)  == RefColIn(models[x].src, models[x].uses, models[x].lrefs, i)
GarbageLine(f) == sc.pad[f] + Len(sc.imports[f]) + Len(DefsOf(f)) + Len(UsesOf(f))
                    + (IF LrefsOf(f) # <<>> THEN 1 ELSE 0) + 1
FileLabel(x)  == IF x = Builtin \/ models[x].nofile THEN NoneFile ELSE x.f

----------------------------------------------------------------------------
\* Lookup (C17): the model itself, then the models loaded by it, then builtin models
DefSeq(x)    == IF x = Builtin THEN BuiltinDefs ELSE models[x].defs
HasDef(x, n) == n \in Range(DefSeq(x))
Count(x, n)  == Cardinality({j \in 1..Len(DefSeq(x)) : DefSeq(x)[j] = n})
FirstIdx(x, n) == CHOOSE j \in 1..Len(DefSeq(x)) :
                     DefSeq(x)[j] = n /\ \A k \in 1..(j - 1) : DefSeq(x)[k] # n
LocalModels(m) == {repoAll[g] : g \in repoLocal[m]}
Tier(m, n) ==
  IF HasDef(m, n) THEN {m}
  ELSE LET L == {x \in LocalModels(m) : HasDef(x, n)} IN
       IF L # {} THEN L
       ELSE IF sc.builtin # <<>> /\ HasDef(Builtin, n) THEN {Builtin} ELSE {}
Targets(m, n) == {[m |-> x, i |-> FirstIdx(x, n)] : x \in Tier(m, n)}

RefName(m, i)   == AllRefs(m)[i]
IsPostponed(m, i) == CanPostpone /\ RefName(m, i) = "pp"
IsUnknown(m, i)   == ~IsPostponed(m, i) /\ Tier(m, RefName(m, i)) = {}
Dups(m, i)        == {x \in Tier(m, RefName(m, i)) : Count(x, RefName(m, i)) > 1}
IsNotUnique(m, i) == ~IsPostponed(m, i) /\ IsPlainKind /\ Dups(m, i) # {}

----------------------------------------------------------------------------
\* What the harness can observe when a top-level load has finished
SummaryTg(incl, ms) ==
  UNION {{[m |-> x, i |-> i, to |-> ms[x].tg[i]] : i \in 1..Len(ms[x].tg)} : x \in incl}
UsedRids == ({sc.repo[l] : l \in {"A", "B"}} \ {"-"})
              \cup (IF \E i \in 1..Len(sc.session) : sc.session[i].how = "app" THEN {"app"} ELSE {})

Summary(oc, rs, cur, rl, ms, ops) ==
  LET incl == IF oc.ok THEN {rs[cur][g] : g \in DOMAIN rs[cur]} \cup {oc.model} ELSE {} IN
  [ res    |-> [ok |-> oc.ok, kind |-> oc.kind, file |-> oc.file, line |-> oc.line, col |-> oc.col,
                model |-> oc.model],
    grepo  |-> UNION {{[r |-> r, f |-> g, m |-> rs[r][g]] : g \in DOMAIN rs[r]} : r \in UsedRids},
    incl   |-> incl,
    local  |-> {[m |-> x, fs |-> rl[x]] : x \in incl},
    opens  |-> {[f |-> g, n |-> ops[g]] : g \in {h \in DOMAIN ops : ops[h] > 0}},
    params |-> {[m |-> x, ps |-> ms[x].params] : x \in incl},
    tg     |-> SummaryTg(incl, ms) ]

\* a top-level call returns or raises: the caller sees `oc`
Finish(oc) ==
  /\ outcome' = oc
  /\ stack' = <<>>
  /\ step' = step + 1
  /\ hist' = Append(hist, Summary(oc, repos', CurRid, repoLocal', models', opens'))

\* an exception leaves all frames; the handlers run in Cleanup
Fail(oc, nocleanup) ==
  /\ outcome' = oc
  /\ stack' = << [Frame("-", TRUE) EXCEPT !.pc = "cleanup", !.nc = nocleanup] >>

Purge(ra, cr)    == [g \in {h \in DOMAIN ra : ra[h] \notin cr} |-> ra[g]]
PurgeAll(rs, cr) == [r \in DOMAIN rs |-> Purge(rs[r], cr)]

----------------------------------------------------------------------------
InitRest ==
  /\ dev = {}
  /\ step = 0 /\ fault = TRUE /\ stack = <<>>
  /\ models = <<>> /\ repoLocal = <<>>
  /\ repos = [r \in Rids \cup {"tmp"} |-> <<>>]
  /\ opens = [f \in Range(sc.files) |-> 0]
  /\ created = {} /\ before = repos /\ outcome = Pending /\ hist = <<>>

\* (the bound S holds the evaluated sequence: TLC would re-evaluate ScSeq at every use)
Init == (\E S \in {ScSeq} : \E i \in 1..Len(S) : sc = S[i]) /\ InitRest

\* the failing file is corrected between two loads
Repair ==
  /\ Idle /\ step < Len(sc.session) /\ Op.op = "repair"
  /\ fault' = FALSE /\ step' = step + 1
  /\ UNCHANGED <<sc, dev, stack, models, repos, repoLocal, opens, created, before, outcome, hist>>

\* the language designer declares further parameters
Declare ==
  /\ Idle /\ step < Len(sc.session) /\ Op.op = "declare"
  /\ step' = step + 1
  /\ UNCHANGED <<sc, dev, fault, stack, models, repos, repoLocal, opens, created, before, outcome, hist>>

\* model_from_file / model_from_str of the metamodel of the file's language is called
StartLoad ==
  /\ Idle /\ step < Len(sc.session) /\ Op.op = "load"
  /\ stack' = << Frame(Op.file, TRUE) >>
  /\ opens' = [f \in Files |-> 0]
  /\ created' = {}
  /\ repos' = [repos EXCEPT !["tmp"] = <<>>]
  /\ before' = repos'
  /\ outcome' = Pending
  /\ UNCHANGED <<sc, dev, step, fault, models, repoLocal, hist>>

\* the parameter names a metamodel declares: those it was built with and those declared
\* since (model_param_defs.add between two loads)
DeclaredNow(lg) == Range(sc.declared[lg]) \cup {"project_root"} \cup
                   UNION {Range(sc.session[i].given) :
                            i \in {j \in 1..step : sc.session[j].op = "declare" /\ sc.session[j].file = lg}}
\* only the metamodel that is called validates the parameters; a load into an
\* application-owned repository is not validated at all
ParamsOk(op) == op.how = "app" \/ Range(op.given) \subseteq DeclaredNow(sc.lang[op.file])

\* C27: undeclared parameter -> TextXError before anything else happens
CheckParams ==
  /\ ~Idle /\ Top.pc = "check"
  /\ UNCHANGED <<sc, dev, fault, models, repos, repoLocal, opens, created, before>>
  /\ IF ParamsOk(Op)
     THEN /\ stack' = WithTop([Top EXCEPT !.pc = "cache"])
          /\ UNCHANGED <<step, outcome, hist>>
     ELSE Finish(ErrRes("params", NoneFile, 0, 0, NoCul))

\* C17: with a global repository a file that is already cached is not loaded again.
\* A load into an application-owned repository: known there -> returned as it is; cached
\* in the global repository of the file's language -> that model enters the application's
\* repository (its model processors run); otherwise it is loaded.
CacheStep ==
  /\ ~Idle /\ Top.pc = "cache"
  /\ UNCHANGED <<sc, dev, fault, models, repoLocal, opens, created, before>>
  /\ LET f == Top.file  r == Rid(f) IN
     IF Op.how = "app"
     THEN IF f \in DOMAIN repoAll
          THEN UNCHANGED repos /\ Finish(OkRes(repoAll[f]))
          ELSE IF r # "-" /\ f \in DOMAIN repos[r]
          THEN /\ repos' = SetAll((f :> repos[r][f]) @@ repoAll)
               /\ stack' = WithTop([Top EXCEPT !.pc = "main_mp", !.m = repos[r][f]])
               /\ UNCHANGED <<step, outcome, hist>>
          ELSE /\ stack' = WithTop([Top EXCEPT !.pc = "open"])
               /\ UNCHANGED <<repos, step, outcome, hist>>
     ELSE /\ IF CurRid # "tmp" /\ Op.how # "str" /\ f \in DOMAIN repoAll
             THEN stack' = WithTop([Top EXCEPT !.pc = "main_mp", !.m = repoAll[f]])
             ELSE stack' = WithTop([Top EXCEPT !.pc = "open"])
          /\ UNCHANGED <<repos, step, outcome, hist>>

\* C17: a file requested by an importing model of another language is taken from the
\* global repository of its own language when it is cached there
NestedCache ==
  /\ ~Idle /\ Top.pc = "ncache"
  /\ LET g == Top.file
         r == Rid(g)
     IN IF r \notin {"-", CurRid} /\ g \in DOMAIN repos[r]
        THEN /\ repos' = SetAll((g :> repos[r][g]) @@ repoAll)
             /\ stack' = WithTop([Top EXCEPT !.pc = "nested_mp", !.m = repos[r][g]])
        ELSE /\ stack' = WithTop([Top EXCEPT !.pc = "open"])
             /\ UNCHANGED repos
  /\ UNCHANGED <<sc, dev, step, fault, models, repoLocal, opens, created, before, outcome, hist>>

ReadsFile == ~(Top.main /\ Op.how \in {"str", "strfile"})       \* a string was given for the main model

OpenFile(f) ==
  /\ ~Idle /\ Top.pc = "open" /\ Top.file = f /\ ReadsFile
  /\ opens' = [opens EXCEPT ![f] = @ + 1]
  /\ stack' = WithTop([Top EXCEPT !.pc = "parse"])
  /\ UNCHANGED <<sc, dev, step, fault, models, repos, repoLocal, created, before, outcome, hist>>

SkipOpen ==
  /\ ~Idle /\ Top.pc = "open" /\ ~ReadsFile
  /\ stack' = WithTop([Top EXCEPT !.pc = "parse"])
  /\ UNCHANGED <<sc, dev, step, fault, models, repos, repoLocal, opens, created, before, outcome, hist>>

\* parse + object construction: a new model, or a syntax error at the offending text (C28)
Parse ==
  /\ ~Idle /\ Top.pc = "parse"
  /\ LET f == Top.file
         nofile == Top.main /\ Op.how = "str"
     IN IF FaultIn(f, "syntax")
        THEN /\ Fail(ErrRes("syntax", IF nofile THEN NoneFile ELSE f, GarbageLine(f), Pre(f) + 1,
                            <<f, 0, IF nofile THEN NoneFile ELSE f>>), FALSE)
             /\ UNCHANGED <<models, created, repoLocal>>
        ELSE LET m == [f |-> IF nofile THEN "~" ELSE f, a |-> Attempt] IN
             /\ models' = (m :> [src |-> f, params |-> Op.given, defs |-> DefsOf(f), uses |-> UsesOf(f),
                                 lrefs |-> LrefsOf(f), tg |-> <<>>, nofile |-> nofile]) @@ models
             /\ created' = created \cup {m}
             /\ repoLocal' = (m :> {}) @@ repoLocal
             /\ stack' = WithTop([Top EXCEPT !.pc = "register", !.m = m])
             /\ UNCHANGED outcome
  /\ UNCHANGED <<sc, dev, step, fault, repos, opens, before, hist>>

\* pre_ref_resolution_callback: the model enters the repository of the load (and only that
\* one, whatever its language) -- the main model only when its metamodel has a global
\* repository (otherwise at its first import, see ImportNext)
Register ==
  /\ ~Idle /\ Top.pc = "register"
  /\ repos' = SetAll(IF (CurRid # "tmp" \/ ~Top.main) /\ ~models[Top.m].nofile
                     THEN (Top.file :> Top.m) @@ repoAll ELSE repoAll)
  /\ stack' = WithTop([Top EXCEPT !.pc = "imports", !.todo = Stmts(Top.file)])
  /\ UNCHANGED <<sc, dev, step, fault, models, repoLocal, opens, created, before, outcome, hist>>

\* one imported file g for the model of frame fr2, `ra` the repository of the load:
\* visible already | known to the repository | nested load
DoImport(g, fr2, ra) ==
  /\ repos' = SetAll(ra)
  /\ IF g \in repoLocal[fr2.m]
     THEN /\ stack' = WithTop(fr2) /\ UNCHANGED repoLocal
     ELSE IF g \in DOMAIN ra
     THEN /\ stack' = WithTop(fr2)
          /\ repoLocal' = [repoLocal EXCEPT ![fr2.m] = @ \cup {g}]
     ELSE /\ stack' = Append(WithTop(fr2), Frame(g, FALSE)) /\ UNCHANGED repoLocal

ImportNext ==
  /\ ~Idle /\ Top.pc = "imports" /\ Top.gl = {} /\ Top.todo # <<>>
  /\ LET s   == Head(Top.todo)
         fr2 == [Top EXCEPT !.todo = Tail(@)]
         k   == Key(Top.m)
         reg == IF k \in DOMAIN repoAll /\ repoAll[k] = Top.m THEN repoAll ELSE (k :> Top.m) @@ repoAll
     IN IF s = "*"
        THEN /\ stack' = WithTop([fr2 EXCEPT !.gl = Range(sc.glob)])
             /\ repos' = SetAll(reg) /\ UNCHANGED repoLocal
        ELSE DoImport(s, fr2, reg)
  /\ UNCHANGED <<sc, dev, step, fault, models, opens, created, before, outcome, hist>>

\* Globbed files that are already visible or known need no load; in which order they are
\* met is unobservable (a file once known stays known during a load), so they are taken
\* first and together.  For the others the file system decides the order.
GlobHits == {g \in Top.gl : g \in repoLocal[Top.m] \/ g \in DOMAIN repoAll}

ImportGlobHits ==
  /\ ~Idle /\ Top.pc = "imports" /\ GlobHits # {}
  /\ repoLocal' = [repoLocal EXCEPT ![Top.m] = @ \cup GlobHits]
  /\ stack' = WithTop([Top EXCEPT !.gl = @ \ GlobHits])
  /\ UNCHANGED <<sc, dev, step, fault, models, repos, opens, created, before, outcome, hist>>

ImportGlobPick ==
  /\ ~Idle /\ Top.pc = "imports" /\ Top.gl # {} /\ GlobHits = {}
  /\ \E g \in Top.gl : DoImport(g, [Top EXCEPT !.gl = @ \ {g}], repoAll)
  /\ UNCHANGED <<sc, dev, step, fault, models, opens, created, before, outcome, hist>>

ImportsDone ==
  /\ ~Idle /\ Top.pc = "imports" /\ Top.gl = {} /\ Top.todo = <<>>
  /\ stack' = WithTop([Top EXCEPT !.pc = IF Top.main THEN "resolve" ELSE "nested_mp"])
  /\ UNCHANGED <<sc, dev, step, fault, models, repos, repoLocal, opens, created, before, outcome, hist>>

MPFails(m) == "badm" \in Range(models[m].defs)

\* model processors of an imported model run before any reference is resolved (also
\* on a model taken from a global repository); then the importing model sees it
NestedMP ==
  /\ ~Idle /\ Top.pc = "nested_mp"
  /\ IF MPFails(Top.m)
     THEN /\ Fail(ErrRes("modelproc", NoneFile, 0, 0, NoCul), FALSE)
          /\ UNCHANGED repoLocal
     ELSE LET parent == stack[Len(stack) - 1] IN
          /\ stack' = SubSeq(stack, 1, Len(stack) - 1)
          /\ repoLocal' = [repoLocal EXCEPT ![parent.m] = @ \cup {Top.file}]
          /\ UNCHANGED outcome
  /\ UNCHANGED <<sc, dev, step, fault, models, repos, opens, created, before, hist>>

\* Deviation clauses: D ranges over the sets of applicable listed clauses; outside
\* vacuity runs only sets are taken in which every clause changes the result
DevChoices(App) == IF Force THEN {Listed \cap App} ELSE SUBSET (Listed \cap App)
Effective(D, F(_)) == {c \in D : F(D \ {c}) # F(D)}

\* where an error about reference i of model m is located (C28)
DocLoc(m, i) == [file |-> FileLabel(m), line |-> RefLine(m, i), col |-> RefCol(m, i)]
RefOff(m, i) == Off(ModelLens(m), RefLine(m, i), RefCol(m, i))
UnresolvableLoc(m, i, mainm, D) ==
  LET lc == IF "UnresolvableUsesMainParser" \in D
            THEN LineColIn(ModelLens(mainm), RefOff(m, i))
            ELSE <<RefLine(m, i), RefCol(m, i)>>
  IN [file |-> IF "UnresolvableWithoutFilename" \in D THEN NoneFile ELSE FileLabel(m),
      line |-> lc[1], col |-> lc[2]]
NotUniqueLoc(m, i, x, D) ==
  IF "NotUniqueUsesForeignParser" \in D
  THEN LET lc == LineColIn(ModelLens(x), RefOff(m, i)) IN
       [file |-> FileLabel(x), line |-> lc[1], col |-> lc[2]]
  ELSE DocLoc(m, i)

RefsUnder == UNION {{<<m, i>> : i \in 1..Len(AllRefs(m))} : m \in created}
Cul(r)    == <<models[r[1]].src, r[2], FileLabel(r[1])>>

\* reference resolution over all models under construction
Resolve ==
  /\ ~Idle /\ Top.pc = "resolve"
  /\ LET R == RefsUnder
         U == {r \in R : IsUnknown(r[1], r[2])}
         N == {r \in R : IsNotUnique(r[1], r[2])}
         P == {r \in R : IsPostponed(r[1], r[2])}
     IN IF U \cup N # {}
        THEN \* raised at the first attempt on such a reference
             /\ \/ \E r \in U : LET l == DocLoc(r[1], r[2]) IN
                     /\ Fail(ErrRes("unknown", l.file, l.line, l.col, Cul(r)), FALSE)
                     /\ UNCHANGED dev
                \/ \E r \in N : \E x \in Dups(r[1], r[2]) :
                   \E D \in DevChoices({"NotUniqueUsesForeignParser"}) :
                     LET L(DD) == NotUniqueLoc(r[1], r[2], x, DD)
                         l == L(D) IN
                     /\ Force \/ Effective(D, L) = D
                     /\ dev' = dev \cup Effective(D, L)
                     /\ Fail(ErrRes("notunique", l.file, l.line, l.col, Cul(r)), FALSE)
             /\ UNCHANGED models
        ELSE IF P # {}
        THEN \* no progress: the references still postponed are unresolvable
             /\ \E r \in P :
                \E D \in DevChoices({"UnresolvableWithoutFilename", "UnresolvableUsesMainParser"}) :
                  LET L(DD) == UnresolvableLoc(r[1], r[2], Top.m, DD)
                      l == L(D) IN
                  /\ Force \/ Effective(D, L) = D
                  /\ dev' = dev \cup Effective(D, L)
                  /\ Fail(ErrRes("unresolvable", l.file, l.line, l.col, Cul(r)), FALSE)
             /\ UNCHANGED models
        ELSE /\ models' = [x \in DOMAIN models |->
                             IF x \in created
                             THEN [models[x] EXCEPT !.tg = [i \in 1..Len(AllRefs(x)) |->
                                                              Targets(x, AllRefs(x)[i])]]
                             ELSE models[x]]
             /\ stack' = WithTop([Top EXCEPT !.pc = "objprocs", !.left = created])
             /\ UNCHANGED <<outcome, dev>>
  /\ UNCHANGED <<sc, step, fault, repos, repoLocal, opens, created, before, hist>>

\* object processors, model by model
ObjProcs(m) ==
  /\ ~Idle /\ Top.pc = "objprocs" /\ m \in Top.left
  /\ IF "bado" \in Range(models[m].defs)
     THEN Fail(ErrRes("objproc", NoneFile, 0, 0, NoCul), FALSE)
     ELSE /\ stack' = WithTop([Top EXCEPT !.left = @ \ {m}]) /\ UNCHANGED outcome
  /\ UNCHANGED <<sc, dev, step, fault, models, repos, repoLocal, opens, created, before, hist>>

ObjProcsDone ==
  /\ ~Idle /\ Top.pc = "objprocs" /\ Top.left = {}
  /\ stack' = WithTop([Top EXCEPT !.pc = "main_mp"])
  /\ UNCHANGED <<sc, dev, step, fault, models, repos, repoLocal, opens, created, before, outcome, hist>>

\* model processors of the main model (also on a cached model), then return.
\* C18 demands the cleanup for this failure too.  Clauses: NoCleanupOnModelProcessorFailure
\* is what metamodel.internal_model_from_file did; NoCleanupOnStringModelProcessorFailure is
\* what metamodel.model_from_str did for a model without file name; NoCleanupOfApplicationRepository
\* is what happens when the application loads into a repository of its own
\* (GlobalRepo.load_models_in_model_repo): the metamodel only tidies its own repository.
MainMP ==
  /\ ~Idle /\ Top.pc = "main_mp"
  /\ UNCHANGED <<sc, fault, models, repos, repoLocal, opens, created, before>>
  /\ IF MPFails(Top.m)
     THEN LET cs == ({"NoCleanupOnModelProcessorFailure"} \cup
                     (IF Op.how = "str" THEN {"NoCleanupOnStringModelProcessorFailure"} ELSE {}) \cup
                     (IF Op.how = "app" THEN {"NoCleanupOfApplicationRepository"} ELSE {})) \cap Listed
              matters == \E r \in Rids : Purge(repos[r], created) # repos[r] IN
          /\ \E nc \in (IF cs # {} /\ matters THEN (IF Force THEN {TRUE} ELSE {FALSE, TRUE})
                         ELSE {FALSE}) :
                /\ Fail(ErrRes("modelproc", NoneFile, 0, 0, NoCul), nc)
                /\ dev' = IF nc THEN dev \cup cs ELSE dev
          /\ UNCHANGED <<step, hist>>
     ELSE Finish(OkRes(Top.m)) /\ UNCHANGED dev

\* the exception handlers: no model of this attempt stays in any repository.  An entry
\* that the attempt added for a model cached elsewhere (NestedCache) may stay or go.
OnlyOld(rs) == [r \in DOMAIN rs |-> [g \in DOMAIN rs[r] \cap DOMAIN before[r] |-> rs[r][g]]]
Cleanup ==
  /\ ~Idle /\ Top.pc = "cleanup"
  /\ LET purged == PurgeAll(repos, created) IN
     \E dropNew \in (IF ~Top.nc /\ OnlyOld(purged) # purged THEN {FALSE, TRUE} ELSE {FALSE}) :
        repos' = IF Top.nc THEN repos ELSE IF dropNew THEN OnlyOld(purged) ELSE purged
  /\ UNCHANGED <<sc, dev, fault, models, repoLocal, opens, created, before>>
  /\ Finish(outcome)

\* a finished session stutters (every other state must have a successor)
Stutter == Idle /\ step = Len(sc.session) /\ UNCHANGED vars

Next ==
  \/ Stutter
  \/ Repair \/ Declare \/ StartLoad \/ CheckParams \/ CacheStep \/ NestedCache
  \/ \E f \in Files : OpenFile(f)
  \/ SkipOpen \/ Parse \/ Register \/ ImportNext \/ ImportGlobHits \/ ImportGlobPick \/ ImportsDone
  \/ NestedMP \/ Resolve
  \/ \E m \in DOMAIN models : ObjProcs(m)
  \/ ObjProcsDone \/ MainMP \/ Cleanup

Spec == Init /\ [][Next]_vars

----------------------------------------------------------------------------
\* Properties.  They are stated for the documented semantics; a configuration
\* with a deviation clause switched on must violate the corresponding one.
JustLoaded == Idle /\ step > 0 /\ LastOp.op = "load"
LastRid    == RidOf(LastOp)
LastAll    == repos[LastRid]
Incl       == {LastAll[g] : g \in DOMAIN LastAll} \cup {outcome.model}
Zero       == [f \in Files |-> 0]
InSomeRepo(x) == \E r \in DOMAIN repos : \E g \in DOMAIN repos[r] : repos[r][g] = x

\* C17: no file is opened twice during one top-level load ...
C17_OpenOnce == \A f \in Files : opens[f] <= 1
\* ... and exactly the files of the models created by the load are opened
C17_OpensCreated ==
  JustLoaded /\ outcome.ok =>
    \A f \in Files : opens[f] = IF \E m \in created : models[m].src = f
                                                       /\ ~(m = outcome.model /\ LastOp.how \in {"str", "strfile"})
                                THEN 1 ELSE 0
\* C17: a file cached in the global repository of its language is never read again,
\* whoever asks for it
C17_CachedNotOpened ==
  \A f \in Files : opens[f] > 0 => (Rid(f) = "-" \/ f \notin DOMAIN before[Rid(f)])
\* C17: one model per file, and every reference to an element of a file points into that model
C17_Identity ==
  JustLoaded /\ outcome.ok =>
    /\ \A m \in created : m = outcome.model \/ (Key(m) \in DOMAIN LastAll /\ LastAll[Key(m)] = m)
    /\ \A m \in Incl : \A i \in 1..Len(models[m].tg) : \A t \in models[m].tg[i] :
          t.m = Builtin \/ t.m = m \/ InSomeRepo(t.m)
    /\ \A m \in created : \A i \in 1..Len(models[m].tg) : \A t \in models[m].tg[i] :
          t.m = Builtin \/ t.m = m \/ (Key(t.m) \in DOMAIN LastAll /\ LastAll[Key(t.m)] = t.m)
    /\ \A m \in Incl : \A i \in 1..Len(models[m].tg) : models[m].tg[i] # {}
\* C17/C18: whatever a global repository held before a load it still holds afterwards
\* (file models and string models alike), whether the load succeeds or fails
C17_CacheKept ==
  JustLoaded =>
    \A r \in Rids : \A g \in DOMAIN before[r] : g \in DOMAIN repos[r] /\ repos[r][g] = before[r][g]
\* C17: a repeated load with a global repository returns the cached model, untouched
C17_CacheSame ==
  JustLoaded /\ LastRid # "tmp" /\ LastOp.how # "str" /\ outcome.ok =>
    /\ LastAll[LastOp.file] = outcome.model
    /\ (LastOp.file \in DOMAIN before[LastRid] =>
          outcome.model = before[LastRid][LastOp.file] /\ created = {} /\ opens = Zero)
\* C18: after a failure no model of the attempt is in any repository,
\* what was cached earlier is still there
C18_CleanRepos ==
  JustLoaded /\ ~outcome.ok =>
    /\ \A m \in created : ~InSomeRepo(m)
    /\ \A r \in Rids : \A g \in DOMAIN before[r] : g \in DOMAIN repos[r] /\ repos[r][g] = before[r][g]
\* C18: once the failing file is corrected the load succeeds
C18_RepairedReload ==
  JustLoaded /\ ~fault /\ ParamsOk(LastOp) => outcome.ok
\* C27: rejected iff an undeclared name is given, and then nothing has happened
C27_Reject ==
  JustLoaded =>
    /\ (outcome.kind = "params") <=> ~ParamsOk(LastOp)
    /\ (outcome.kind = "params" => created = {} /\ opens = Zero /\ repos = before)
\* C27: every model created by the load -- of whatever language -- exposes exactly the given parameters
C27_Params ==
  /\ ~Idle => \A m \in created : models[m].params = Op.given
  /\ JustLoaded => \A m \in created : models[m].params = LastOp.given
\* C28: the error names the file of the offending text and its line/column there
TextOf(f) == LineLens(f, DefsOf(f), UsesOf(f), LrefsOf(f), FaultIn(f, "syntax"))
C28_Location ==
  JustLoaded /\ outcome.kind \in {"syntax", "unknown", "unresolvable", "notunique"} =>
    LET f  == outcome.cul[1]
        i  == outcome.cul[2]
        ln == IF i = 0 THEN GarbageLine(f) ELSE RefLineIn(f, DefsOf(f), UsesOf(f), i)
        c  == IF i = 0 THEN Pre(f) + 1 ELSE RefColIn(f, UsesOf(f), LrefsOf(f), i)
    IN \* the file that holds the text; none only for the string handed to model_from_str
       /\ outcome.file = outcome.cul[3]
       /\ outcome.file \in {f} \cup (IF LastOp.how = "str" /\ f = LastOp.file THEN {NoneFile} ELSE {})
       /\ outcome.line = ln /\ outcome.col = c
       \* the position is the one a parser of that file's text computes
       /\ LineColIn(TextOf(f), Off(TextOf(f), ln, c)) = <<ln, c>>

\* emitted once per finished behaviour: what the implementation must show
Done == Idle /\ step = Len(sc.session)
EmitOut == Done => PrintT("OUT|" \o ToJson([id |-> sc.id, dev |-> dev, hist |-> hist]))

=============================================================================
