SPECIFICATION Spec
CONSTANTS
  Dev = {"ProxyLastNamed"}
  MaxEls = 2
  MaxX = 1
INVARIANT Terminates
INVARIANT FixpointWithinBound
INVARIANT Monotone
INVARIANT UpIsDotsStar
INVARIANT ExpansionsIncluded
INVARIANT DevOnlyRemoves
INVARIANT ProxyEndsInTarget
INVARIANT ZeroRepetition
CHECK_DEADLOCK FALSE
