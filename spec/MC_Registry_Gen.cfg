SPECIFICATION Spec
CONSTANTS
  Names <- MCNames
  Lower <- MCLower
  Patterns <- MCPatterns
  Files <- MCFiles
  Match <- MCMatch
  EPLangs <- MCEPLangs
  EPGens <- MCEPGens
  Targets <- MCTargets
  MaxFresh = 2
  Ops <- GenOps
  Dev <- NoDev
VIEW core
CONSTRAINT Bound
INVARIANT KeysLowerUnique
INVARIANT EntryPointsSurvive
INVARIANT CacheCoherent
PROPERTY RefuseDuplicates
PROPERTY ForFileExactlyOne
PROPERTY CachedOrFresh
PROPERTY FailedRequestKeepsCache
CHECK_DEADLOCK FALSE
