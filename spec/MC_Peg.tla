------------------------------- MODULE MC_Peg -------------------------------
(***************************************************************************)
(* Bounded universes of (grammar, options, input) cases for Peg.tla and    *)
(* the theorems TLC checks on them (the (M) part of C01 C02 C03 C06 C19    *)
(* C20 C21 C22).  Every grammar of a family is one initial state; the      *)
(* invariants quantify over all inputs of the family.  The same run emits  *)
(* every case with its expected outcome (CASE| lines) so that the whole    *)
(* universe is replayed against textX (S->I).                              *)
(*                                                                         *)
(* IOEnv: VT_FAMILY (ops asg kinds mods icase kwd), VT_DEPTH, VT_SHARD,     *)
(* VT_NSHARDS, VT_EMIT (1 = print cases).                                   *)
(***************************************************************************)
EXTENDS Peg, Json, IOUtils

Family == IOEnv.VT_FAMILY
Depth  == IF IOEnv.VT_DEPTH = "2" THEN 2 ELSE 1
NShards == IF IOEnv.VT_NSHARDS = "16" THEN 16 ELSE IF IOEnv.VT_NSHARDS = "8" THEN 8
           ELSE IF IOEnv.VT_NSHARDS = "4" THEN 4 ELSE 1
ShardNo == LET t == IOEnv.VT_SHARD IN
           CHOOSE k \in 0..15 : ToString(k) = t
EmitOn == IOEnv.VT_EMIT = "1"
\* optional cap on the input length of a family (quick tier)
LenCap(n) == IF IOEnv.VT_MAXLEN = "3" THEN 3 ELSE IF IOEnv.VT_MAXLEN = "4" THEN (IF n > 4 THEN 4 ELSE n) ELSE n

----------------------------------------------------------------------------
\* constructors
S(l) == [k |-> "str", lit |-> l, sup |-> FALSE, eid |-> 0]
R(pre, set, mn, post, grp) == [k |-> "re", pre |-> pre, set |-> set, min |-> mn, post |-> post, grp |-> grp,
                               sup |-> FALSE, eid |-> 0]
Rf(n) == [k |-> "ref", name |-> n, sup |-> FALSE, eid |-> 0]
Sq(es) == [k |-> "seq", es |-> es, sup |-> FALSE, eid |-> 0]
Al(es) == [k |-> "alt", es |-> es, sup |-> FALSE, eid |-> 0]
Op(e) == [k |-> "opt", e |-> e, sup |-> FALSE, eid |-> 0]
NoSep == [k |-> "none"]
St(e, sep, eol) == [k |-> "star", e |-> e, sep |-> sep, eol |-> eol, sup |-> FALSE, eid |-> 0]
Pl(e, sep, eol) == [k |-> "plus", e |-> e, sep |-> sep, eol |-> eol, sup |-> FALSE, eid |-> 0]
Un(es, sep, eol) == [k |-> "unord", es |-> es, sep |-> sep, eol |-> eol, sup |-> FALSE, eid |-> 0]
An(e) == [k |-> "and", e |-> e, sup |-> FALSE, eid |-> 0]
Nt(e) == [k |-> "not", e |-> e, sup |-> FALSE, eid |-> 0]
As(a, op, rhs, sep, eol) == [k |-> "asg", attr |-> a, op |-> op, rhs |-> rhs, sep |-> sep, eol |-> eol,
                             sup |-> FALSE, eid |-> 0]
Sup(e) == [e EXCEPT !.sup = TRUE]
Ru(n, body) == [name |-> n, skipws |-> "inherit", ws |-> <<>>, body |-> body]
RuM(n, body, sk, ws) == [name |-> n, skipws |-> sk, ws |-> ws, body |-> body]

\* unique expression ids
RECURSIVE Num(_,_)
RECURSIVE NumSeq(_,_,_,_)
NumSeq(es, i, n, acc) == IF i > Len(es) THEN [es |-> acc, n |-> n]
                         ELSE LET r == Num(es[i], n) IN NumSeq(es, i+1, r.n, Append(acc, r.e))
Num(e, n) ==
  CASE e.k \in {"seq", "alt", "unord"} ->
         LET r == NumSeq(e.es, 1, n + 1, <<>>) IN [e |-> [e EXCEPT !.eid = n, !.es = r.es], n |-> r.n]
    [] e.k \in {"opt", "star", "plus", "and", "not"} ->
         LET r == Num(e.e, n + 1) IN [e |-> [e EXCEPT !.eid = n, !.e = r.e], n |-> r.n]
    [] e.k = "asg" ->
         LET r == Num(e.rhs, n + 1) IN [e |-> [e EXCEPT !.eid = n, !.rhs = r.e], n |-> r.n]
    [] OTHER -> [e |-> [e EXCEPT !.eid = n], n |-> n + 1]
RECURSIVE NumRules(_,_,_,_)
NumRules(rs, i, n, acc) == IF i > Len(rs) THEN acc
                           ELSE LET r == Num(rs[i].body, n) IN
                                NumRules(rs, i+1, r.n, Append(acc, [rs[i] EXCEPT !.body = r.e]))
G(rs) == [rules |-> NumRules(rs, 1, 1, <<>>)]

\* sequences as finite universes
Cat(A, B) == A \o B
Map1(A, f(_)) == [i \in 1..Len(A) |-> f(A[i])]
Map2(A, B, f(_,_)) == [k \in 1..(Len(A) * Len(B)) |-> f(A[((k-1) \div Len(B)) + 1], B[((k-1) % Len(B)) + 1])]
RECURSIVE Flat(_)
Flat(ss) == IF ss = <<>> THEN <<>> ELSE Head(ss) \o Flat(Tail(ss))

a == 97  b == 98  c == 99  x == 120
Ta == S(<<a>>)  Tb == S(<<b>>)  Tab == S(<<a, b>>)
Comma == S(<<44>>)

\* ------------------------------------------------------------------ expression universes
Unary(A) == Flat(<< Map1(A, Op), Map1(A, LAMBDA e : St(e, NoSep, FALSE)), Map1(A, LAMBDA e : Pl(e, NoSep, FALSE)),
                    Map1(A, LAMBDA e : Pl(e, Comma, FALSE)), Map1(A, LAMBDA e : St(e, Comma, FALSE)),
                    Map1(A, An), Map1(A, Nt), Map1(A, Sup) >>)
Binary(A, B) == Flat(<< Map2(A, B, LAMBDA p, q : Sq(<<p, q>>)), Map2(A, B, LAMBDA p, q : Al(<<p, q>>)),
                        Map2(A, B, LAMBDA p, q : Un(<<p, q>>, NoSep, FALSE)) >>)

T0 == <<Ta, Tb, Tab>>
E1 == Cat(T0, Cat(Unary(T0), Binary(T0, T0)))
E2 == Cat(E1, Cat(Unary(E1), Cat(Binary(E1, T0), Binary(T0, E1))))

OpsBodies == IF Depth = 2 THEN E2 ELSE E1
OpsGrammars == Map1(OpsBodies, LAMBDA e : G(<<Ru("M", e)>>))

\* assignments to attributes x and y
A0 == << As("x", "=", Ta, NoSep, FALSE), As("x", "=", Rf("INT"), NoSep, FALSE), As("y", "=", Tb, NoSep, FALSE),
         As("x", "+=", Ta, NoSep, FALSE), As("x", "*=", Rf("INT"), Comma, FALSE), As("y", "?=", Tb, NoSep, FALSE),
         As("x", "=", Rf("ID"), NoSep, FALSE) >>
AUn(A) == Flat(<< Map1(A, Op), Map1(A, LAMBDA e : St(e, NoSep, FALSE)), Map1(A, LAMBDA e : Pl(e, NoSep, FALSE)) >>)
AB(A, B) == Binary(A, B)
A1 == Cat(A0, Cat(AUn(A0), AB(A0, A0)))
A2 == Cat(A1, Cat(AUn(A1), Cat(AB(A1, A0), AB(A0, A1))))
AsgBodies == IF Depth = 2 THEN A2 ELSE A1
AsgGrammars == Map1(AsgBodies, LAMBDA e : G(<<Ru("M", e)>>))
\* an ordered choice of assignments followed or preceded by a further assignment, an optional, a repetition
A0s == << A0[1], A0[2], A0[3], A0[4] >>
AAlt == Map2(A0s, A0s, LAMBDA p, q : Al(<<p, q>>))
Asg2Bodies == Flat(<< Map2(AAlt, A0s, LAMBDA p, q : Sq(<<p, q>>)), Map2(A0s, AAlt, LAMBDA p, q : Sq(<<p, q>>)),
                      Map2(AAlt, A0s, LAMBDA p, q : Sq(<<Op(p), q>>)), Map2(AAlt, A0s, LAMBDA p, q : Un(<<p, q>>, NoSep, FALSE)) >>)
Asg2Grammars == Map1(Asg2Bodies, LAMBDA e : G(<<Ru("M", e)>>))

\* rule kinds: M over references to A (common), B (match, two parts), C (abstract: D | A | 'b' A | B),
\* D (abstract through a cycle: 'a' 'a' C | K), K (single-match rule)
KA == Ru("A", As("v", "=", Rf("INT"), NoSep, FALSE))
KB == Ru("B", Sq(<<Ta, Tb>>))
KC == Ru("C", Al(<<Rf("D"), Rf("A"), Sq(<<Tb, Rf("A")>>), Rf("B"), Sq(<<Rf("K"), Rf("E")>>)>>))
\* E is generalized by C only through the alternative that starts with a match-rule reference
KE == Ru("E", As("e", "=", Rf("ID"), NoSep, FALSE))
\* D is abstract only through the edge back into the cycle C -> D -> C
KD == Ru("D", Al(<<Sq(<<Ta, Ta, Rf("C")>>), Rf("K")>>))
KK == Ru("K", Tab)
K0 == <<Rf("A"), Rf("B"), Rf("C"), Rf("K"), Ta, Rf("INT")>>
K1 == Cat(K0, Cat(Binary(K0, K0), Map1(K0, LAMBDA e : As("w", "=", e, NoSep, FALSE))))
K2 == Cat(K1, Cat(Binary(K1, K0), Binary(K0, K1)))
KindBodies == IF Depth = 2 THEN K2 ELSE K1
KindGrammars == Map1(KindBodies, LAMBDA e : G(<<Ru("M", e), KA, KB, KC, KD, KK, KE>>))

\* alias rules (the body is a single rule reference) and recursion that passes through them
AlA == Ru("A", Rf("B"))
AlC == Ru("C", Rf("A"))
AlB(X) == Ru("B", Sq(<<Ta, Op(As("r", "=", Rf(X), NoSep, FALSE))>>))
AL0 == <<Rf("A"), Rf("B"), Rf("C"), As("w", "=", Rf("A"), NoSep, FALSE), As("w", "=", Rf("C"), NoSep, FALSE),
         As("w", "+=", Rf("A"), NoSep, FALSE)>>
AL1 == Cat(AL0, Map2(AL0, <<Tb>>, LAMBDA p, q : Sq(<<p, q>>)))
AliasGrammars == Flat(<< Map1(AL1, LAMBDA e : G(<<Ru("M", e), AlA, AlB("A"), AlC>>)),
                         Map1(AL1, LAMBDA e : G(<<Ru("M", e), AlA, AlB("C"), AlC>>)),
                         Map1(AL1, LAMBDA e : G(<<Ru("M", e), AlA, AlB("M"), AlC>>)),
                         Map1(AL1, LAMBDA e : G(<<Ru("M", e), AlC, AlB("B"), AlA>>)) >>)

\* whitespace modes: M over N (noskipws), W (ws=' '), P (plain), with eolterm repetitions and a Comment rule
MN == RuM("N", Sq(<<Ta, Tb>>), "off", <<>>)
MW == RuM("W", Sq(<<Ta, Tb>>), "inherit", <<SP>>)
MP == Ru("P", Sq(<<Ta, Tb>>))
MS == RuM("Q", Pl(Ta, NoSep, FALSE), "off", <<>>)
MComment == Ru("Comment", R(<<35>>, <<SP, a>>, 0, <<>>, FALSE))
M0 == <<Rf("N"), Rf("W"), Rf("P"), Rf("Q"), Tb, Pl(Tb, NoSep, TRUE)>>
M1 == Cat(M0, Cat(Binary(M0, M0), Cat(Map1(M0, Op), Map1(M0, LAMBDA e : Pl(e, NoSep, TRUE)))))
M2 == Cat(M1, Cat(Binary(M1, M0), Binary(M0, M1)))
ModBodies == IF Depth = 2 THEN M2 ELSE M1
ModGrammars == Cat(Map1(ModBodies, LAMBDA e : G(<<Ru("M", e), MN, MW, MP, MS>>)),
                   Map1(ModBodies, LAMBDA e : G(<<Ru("M", e), MN, MW, MP, MS, MComment>>)))

\* ignore_case / autokwd: literals with letters, digits, symbols; ID and regex next to them
L0 == <<S(<<a, b>>), S(<<65, b>>), S(<<43>>), S(<<a, 49>>), S(<<49, a>>), Rf("ID"), R(<<>>, <<a, b, c>>, 1, <<>>, FALSE),
        As("v", "=", Rf("ID"), NoSep, FALSE), As("v", "=", R(<<>>, <<a, 66>>, 1, <<>>, FALSE), NoSep, FALSE)>>
L1 == Cat(L0, Cat(Binary(L0, L0), Map1(L0, LAMBDA e : Pl(e, S(<<a>>), FALSE))))
LitGrammars == Map1(L1, LAMBDA e : G(<<Ru("M", e)>>))

\* metamodel options: skipws x ws x auto_init_attributes x use_regexp_group over rules that depend on them
OS == RuM("S", Sq(<<Ta, Tb>>), "on", <<>>)
O0 == <<Rf("N"), Rf("S"), Rf("P"), Rf("Q"), As("i", "=", Rf("INT"), NoSep, FALSE),
        As("g", "=", R(<<x>>, <<a, b>>, 1, <<>>, TRUE), NoSep, FALSE), Op(As("j", "=", Rf("INT"), NoSep, FALSE)),
        As("k", "*=", Rf("ID"), NoSep, FALSE)>>
O1 == Cat(O0, Cat(Map2(O0, O0, LAMBDA p, q : Sq(<<p, q>>)), Map2(O0, O0, LAMBDA p, q : Al(<<p, q>>))))
OptBodies == IF Depth = 2 THEN O1 ELSE Cat(O0, Map2(<<O0[1], O0[2], O0[5]>>, O0, LAMBDA p, q : Sq(<<p, q>>)))
OptGrammars == Map1(OptBodies, LAMBDA e : G(<<Ru("M", e), MN, OS, MP, MS>>))

Grammars == CASE Family = "ops" -> OpsGrammars
              [] Family = "opts" -> OptGrammars
              [] Family = "asg" -> AsgGrammars
              [] Family = "asg2" -> Asg2Grammars
              [] Family = "kinds" -> KindGrammars
              [] Family = "alias" -> AliasGrammars
              [] Family = "mods" -> ModGrammars
              [] Family \in {"icase", "kwd"} -> LitGrammars

\* ------------------------------------------------------------------ inputs
RECURSIVE Strings(_,_)
\* all strings over alphabet A (a sequence) of length <= n, shortest first
Strings(A, n) == IF n = 0 THEN << <<>> >>
                 ELSE LET P == Strings(A, n-1)
                          L == SelectSeq(P, LAMBDA s : Len(s) = n-1)
                      IN P \o Map2(L, A, LAMBDA s, ch : Append(s, ch))
Inputs == CASE Family = "ops" -> Strings(<<a, b, SP>>, 4)
            [] Family = "alias" -> Strings(<<a, b, SP>>, 5)
            [] Family = "asg" -> Strings(<<a, b, 49, SP, 44>>, 4)
            [] Family = "asg2" -> Strings(<<a, b, 49, 48, SP>>, 4)
            [] Family = "kinds" -> Strings(<<a, b, 49, SP>>, LenCap(5))
            [] Family = "mods" -> Strings(<<a, b, SP, NL, 35>>, LenCap(5))
            [] Family = "opts" -> Strings(<<a, b, 49, x, SP, TAB>>, 3)
            [] Family = "icase" -> Strings(<<a, 65, b, 43, SP>>, 4)
            [] Family = "kwd" -> Strings(<<a, b, 49, 43, SP>>, 4)

BaseCfg == [skipws |-> TRUE, ws |-> <<>>, icase |-> FALSE, autokwd |-> FALSE, memo |-> FALSE,
            regroup |-> FALSE, autoinit |-> TRUE]
BOOLS == <<TRUE, FALSE>>
Cfgs == CASE Family = "icase" -> <<[BaseCfg EXCEPT !.icase = TRUE]>>
          [] Family = "kwd" -> <<[BaseCfg EXCEPT !.autokwd = TRUE]>>
          [] Family = "opts" -> Flat(Map2(BOOLS, BOOLS, LAMBDA sk, w :
                                   Map2(BOOLS, BOOLS, LAMBDA ai, rg :
                                      [BaseCfg EXCEPT !.skipws = sk, !.ws = IF w THEN <<SP>> ELSE <<>>,
                                                      !.autoinit = ai, !.regroup = rg])))
          [] OTHER -> <<BaseCfg>>
NC == Len(Cfgs)

----------------------------------------------------------------------------
VARIABLE gi
\* one initial state per (grammar, options) pair
Init == gi \in {k \in 1..(Len(Grammars) * NC) : k % NShards = ShardNo /\ WellFormed(Grammars[((k-1) \div NC) + 1])}
Next == UNCHANGED gi
Spec == Init /\ [][Next]_gi

Gr == Grammars[((gi-1) \div NC) + 1]
Cfg == Cfgs[((gi-1) % NC) + 1]
Env(cfg, D, s) == [g |-> Gr, cfg |-> cfg, D |-> D, s |-> s]
Out(s) == Outcome(Env(Cfg, {}, s))

\* ------------------------------------------------------------------ theorems
\* C19 on the module: memoization keyed by (expression, position, context) is transparent
MemoTransparent ==
  \A i \in 1..Len(Inputs) : Outcome(Env([Cfg EXCEPT !.memo = TRUE], {}, Inputs[i])) = Out(Inputs[i])

\* models without source positions
RECURSIVE NoPos(_)
NoPos(v) == CASE v.t = "obj" -> [t |-> "obj", cls |-> v.cls,
                                 attrs |-> [j \in 1..Len(v.attrs) |-> <<v.attrs[j][1], NoPos(v.attrs[j][2])>>]]
              [] v.t = "list" -> [t |-> "list", v |-> [j \in 1..Len(v.v) |-> NoPos(v.v[j])]]
              [] OTHER -> v
Same(o1, o2) == o1.accept = o2.accept /\ NoPos(o1.model) = NoPos(o2.model)

\* leaves of the parse with the whitespace context in which each was tried
RECURSIVE Leaves(_)
RECURSIVE LeavesSeq(_,_)
LeavesSeq(ns, i) == IF i > Len(ns) THEN <<>> ELSE Leaves(ns[i]) \o LeavesSeq(ns, i+1)
Leaves(n) == IF n.t = "leaf" THEN <<n>> ELSE LeavesSeq(n.kids, 1)
InsertAt(s, p, w) == SubSeq(s, 1, p-1) \o w \o SubSeq(s, p, Len(s))

\* C22 on the module (global skipping, no modifiers): extra whitespace before any token that already has
\* whitespace before it, at the start and at the end of an accepted input changes nothing but positions
WsInsertion ==
  Family \in {"ops", "asg", "kinds"} =>
  \A i \in 1..Len(Inputs) :
    LET s == Inputs[i]  r == ParseAll(Env(Cfg, {}, s)) IN
    r.ok => LET ls == LeavesSeq(r.ns, 1) IN
            \* *extra* whitespace: where a token is already preceded by whitespace (or starts the input);
            \* separating two glued tokens ('aa' -> 'a a') may legitimately re-tokenize the input
            /\ \A j \in 1..Len(ls) :
                  (ls[j].s = 1 \/ s[ls[j].s - 1] \in DefaultWs) => Same(Out(InsertAt(s, ls[j].s, <<SP>>)), Out(s))
            /\ Same(Out(s \o <<NL>>), Out(s))
            /\ Same(Out(<<TAB>> \o s), Out(s))

\* C20 on the module: with ignore_case, changing the case of a character matched by a string or regex
\* literal changes neither acceptance nor structure; values keep the case they were written in
FlipCase(ch) == IF ch \in Upper THEN ch + 32 ELSE IF ch \in LowerC THEN ch - 32 ELSE ch
RECURSIVE LowerV(_)
LowerV(v) == CASE v.t = "obj" -> [t |-> "obj", cls |-> v.cls,
                                  attrs |-> [j \in 1..Len(v.attrs) |-> <<v.attrs[j][1], LowerV(v.attrs[j][2])>>]]
               [] v.t = "list" -> [t |-> "list", v |-> [j \in 1..Len(v.v) |-> LowerV(v.v[j])]]
               [] v.t = "str" -> [t |-> "str", v |-> LowerSeq(v.v)]
               [] OTHER -> v
CaseInsensitive ==
  Family = "icase" =>
  \A i \in 1..Len(Inputs) :
    LET s == Inputs[i]  r == ParseAll(Env(Cfg, {}, s)) IN
    r.ok => LET ls == LeavesSeq(r.ns, 1) IN
            \A j \in 1..Len(ls) : ls[j].conv = "str" =>
              \A p \in ls[j].s .. (ls[j].e - 1) :
                LET s2 == [s EXCEPT ![p] = FlipCase(s[p])]
                    o1 == Out(s)  o2 == Out(s2)
                IN o2.accept /\ LowerV(NoPos(o2.model)) = LowerV(NoPos(o1.model))

\* C21 on the module: (1) a keyword-like literal never matches when a word character follows;
\* (2,3) where no keyword-like literal leaf is immediately followed by a word character, autokwd changes nothing
KwLeafGlued(s, l) == l.kw /\ l.e <= Len(s) /\ s[l.e] \in Word
AutoKwd ==
  Family = "kwd" =>
  \A i \in 1..Len(Inputs) :
    LET s == Inputs[i]
        rk == ParseAll(Env(Cfg, {}, s))
        rn == ParseAll(Env([Cfg EXCEPT !.autokwd = FALSE], {}, s))
    IN /\ rk.ok => \A l \in SeqSet(LeavesSeq(rk.ns, 1)) : ~KwLeafGlued(s, l)
       /\ (rn.ok /\ \A l \in SeqSet(LeavesSeq(rn.ns, 1)) : ~KwLeafGlued(s, l))
            => Outcome(Env(Cfg, {}, s)) = Outcome(Env([Cfg EXCEPT !.autokwd = FALSE], {}, s))

\* C02 on the module: an attribute that is not a list never receives two values in one object,
\* and a list attribute holds every assigned value, in input order
RECURSIVE ObjsOf(_)
RECURSIVE ObjsSeq(_,_)
ObjsSeq(ns, i) == IF i > Len(ns) THEN <<>> ELSE ObjsOf(ns[i]) \o ObjsSeq(ns, i+1)
ObjsOf(n) == IF n.t = "leaf" THEN <<>>
             ELSE IF n.t = "rule" /\ Kind(Gr, n.name) = "common" THEN <<n>> \o ObjsSeq(n.kids, 1)
             ELSE ObjsSeq(n.kids, 1)
AsgEvents(n, at) == SelectSeq(n.kids, LAMBDA k : k.t = "asg" /\ k.attr = at)
RECURSIVE CountVals(_,_)
CountVals(evs, i) == IF i > Len(evs) THEN 0
                     ELSE (IF evs[i].op \in {"+=", "*="}
                           THEN Len(SelectSeq(evs[i].kids, LAMBDA k : ~(k.t = "leaf" /\ k.sep)))
                           ELSE 1) + CountVals(evs, i+1)
NoValueLost ==
  Family \in {"asg", "asg2"} =>
  \A i \in 1..Len(Inputs) :
    LET s == Inputs[i]  E == Env(Cfg, {}, s)  r == ParseAll(E) IN
    r.ok => \A o \in SeqSet(ObjsSeq(r.ns, 1)) :
              \A at \in SeqSet(AttrNames(Gr, o.name)) :
                LET evs == AsgEvents(o, at)
                    v == GetAttr(BuildNode(E, o).attrs, at)
                    nonbool == \A k \in 1..Len(evs) : evs[k].op # "?="
                IN /\ BuildNode(E, o).t = "obj"
                   /\ nonbool => (IF IsList(E, o.name, at) THEN v.t = "list" /\ Len(v.v) = CountVals(evs, 1)
                                  ELSE CountVals(evs, 1) <= 1)

\* C03 on the module: every object of a model is an instance of a rule with assignments
RECURSIVE ObjClasses(_)
ObjClasses(v) == CASE v.t = "obj" -> {v.cls} \cup UNION {ObjClasses(v.attrs[j][2]) : j \in 1..Len(v.attrs)}
                   [] v.t = "list" -> UNION {ObjClasses(v.v[j]) : j \in 1..Len(v.v)}
                   [] OTHER -> {}
OnlyCommonObjects ==
  \A i \in 1..Len(Inputs) : \A cl \in ObjClasses(Out(Inputs[i]).model) : Kind(Gr, cl) = "common"

\* C06 on the module: spans are non-empty, start and end on matched characters, children inside parents,
\* list elements ordered and disjoint
RECURSIVE SpansOk(_,_)
SpansOk(s, v) ==
  CASE v.t = "obj" ->
         /\ v.s < v.e /\ v.e <= Len(s)
         /\ \A j \in 1..Len(v.attrs) :
              LET w == v.attrs[j][2] IN
              /\ SpansOk(s, w)
              /\ w.t = "obj" => v.s <= w.s /\ w.e <= v.e
              /\ w.t = "list" => \A k \in 1..Len(w.v) :
                                   w.v[k].t = "obj" => /\ v.s <= w.v[k].s /\ w.v[k].e <= v.e
                                                       /\ \A m \in 1..(k-1) : w.v[m].t = "obj" => w.v[m].e <= w.v[k].s
    [] v.t = "list" -> \A k \in 1..Len(v.v) : SpansOk(s, v.v[k])
    [] OTHER -> TRUE
SpansExact ==
  \A i \in 1..Len(Inputs) : LET o == Out(Inputs[i]) IN o.accept => SpansOk(Inputs[i], o.model)

\* ------------------------------------------------------------------ emission of the universe
Emit == EmitOn => PrintT("CASE|" \o ToJson([gi |-> gi, g |-> Gr, cfg |-> Cfg,
                                             outs |-> [i \in 1..Len(Inputs) |-> Out(Inputs[i])]]))
EmitInputs == EmitOn => PrintT("INPUTS|" \o ToJson([inputs |-> Inputs, n |-> Len(Grammars)]))
ASSUME EmitInputs
=============================================================================
