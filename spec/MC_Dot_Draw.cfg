SPECIFICATION WSpec
CONSTANTS
  Dev <- DevSet
CHECK_DEADLOCK FALSE
