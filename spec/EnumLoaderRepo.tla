--------------------------- MODULE EnumLoaderRepo ---------------------------
(* Stage 1 of the S->I runs: TLC evaluates the scenario family selected by   *)
(* IOEnv.VT_CFG and writes it to IOEnv.VT_OUT as a JSON list.                *)
EXTENDS MC_LoaderRepo, SequencesExt
ASSUME JsonSerialize(IOEnv.VT_OUT, SetToSeq(MCScenarios))
=============================================================================
