--------------------------- MODULE EnumLoaderRepo ---------------------------
(* Stage 1 of the S->I pass: the scenario families of LoaderRepo.  TLC         *)
(* evaluates the family selected by the JSON file IOEnv.VT_CFG                 *)
(*   family "C17"|"C18"|"C27"|"C28", size "quick"|"thorough",                  *)
(*   kinds [provider kinds], grepo [booleans]                                  *)
(* (C17: import graphs, one and two languages; C18: faults and repairs; C27:   *)
(*  parameter names and values; C28: offending texts and layouts)              *)
(* and writes it to IOEnv.VT_OUT as a JSON list of scenario records.           *)
EXTENDS LoaderRepo, IOUtils, SequencesExt

Cfg == JsonDeserialize(IOEnv.VT_CFG)
Quick == Cfg.size = "quick"
MCKinds == Range(Cfg.kinds)
MCGrepo == Range(Cfg.grepo)

Ord     == <<"a", "b", "c", "d", "z">>
NameOrd == <<"ua", "ub", "uc", "ud", "uz", "s", "k">>
OrdSeq(S) == SelectSeq(Ord, LAMBDA x : x \in S)
U(f) == CASE f = "a" -> "ua" [] f = "b" -> "ub" [] f = "c" -> "uc" [] f = "d" -> "ud" [] OTHER -> "uz"
FilesN(n) == SubSeq(Ord, 1, n)
GlobKind(k) == k \in {"plain_glob", "fqn_glob"}

NoFault == [kind |-> "none", file |-> "-", at |-> "use"]
Flt(k, f) == [kind |-> k, file |-> f, at |-> "use"]
LoadV(f, how, given, vals) == [op |-> "load", file |-> f, how |-> how, given |-> given, vals |-> vals]
Load(f, how, given) == LoadV(f, how, given, "std")
RepairOp == [op |-> "repair", file |-> "-", how |-> "-", given |-> <<>>, vals |-> "-"]
DeclareOp(lg, names) == [op |-> "declare", file |-> lg, how |-> "-", given |-> names, vals |-> "-"]
\* one language, with or without a global repository
OneLang(F) == [f \in F |-> "A"]
RepoOf(grepo) == [A |-> IF grepo THEN "r1" ELSE "-", B |-> "-"]
DeclA(d) == [A |-> d, B |-> <<>>]

\* files a model of f loads directly
Direct(f, imports, glob, kind) ==
  IF GlobKind(kind) THEN Range(glob)
  ELSE UNION {IF s = "*" THEN Range(glob) ELSE {s} : s \in Range(imports[f])}

RECURSIVE ReachN(_, _, _, _, _)
ReachN(S, imports, glob, kind, k) ==
  IF k = 0 THEN S
  ELSE ReachN(S \cup UNION {Direct(f, imports, glob, kind) : f \in S}, imports, glob, kind, k - 1)
Reach(f, imports, glob, kind) == ReachN({f}, imports, glob, kind, 4)

\* name variants: which files also define the shared name "s", builtin model on/off
Shared(v, F) == IF v = 0 THEN {} ELSE IF v = 1 THEN (IF "b" \in F THEN {"b"} ELSE {"a"}) ELSE F \ {"z"}
BuiltinOf(v) == IF v = 0 THEN <<>> ELSE <<"s", "ub", "k">>

\* a scenario whose references are all names visible by the documented lookup
MkX(files, lang, imports, glob, v, kind, repo, declared, flt, session, pad, ind) ==
  LET F    == Range(files)
      defs == [f \in F |-> <<U(f)>> \o (IF f \in Shared(v, F) THEN <<"s">> ELSE <<>>)]
      bi   == BuiltinOf(v)
      vis(f) == Range(defs[f]) \cup UNION {Range(defs[g]) : g \in Direct(f, imports, glob, kind)}
                  \cup Range(bi)
      refs == [f \in F |-> SelectSeq(NameOrd, LAMBDA n : n \in vis(f))]
  IN [files |-> files, lang |-> lang, imports |-> imports, glob |-> glob, defs |-> defs, refs |-> refs,
      lrefs |-> [f \in F |-> <<>>], pad |-> pad, ind |-> ind, deco |-> [f \in F |-> 0], kind |-> kind, repo |-> repo, builtin |-> bi,
      declared |-> declared, fault |-> flt, session |-> session]

Mk(files, imports, glob, v, kind, grepo, declared, flt, session, pad, ind) ==
  MkX(files, OneLang(Range(files)), imports, glob, v, kind, RepoOf(grepo), DeclA(declared), flt, session, pad, ind)

Const(F, v) == [f \in F |-> v]
ImpChoices(F, star) == {OrdSeq(S) : S \in SUBSET F} \cup (IF star THEN {<<"*">>} ELSE {})
StarOk(kind) == kind \in {"plain_uri", "fqn_uri", "rrel"}

\* import graphs over the files F (main "a")
Graphs(F, kind, full) ==
  IF GlobKind(kind) THEN {Const(F, <<>>)}
  ELSE IF full THEN [F -> ImpChoices(F, StarOk(kind))]
  ELSE {g \in [F -> ImpChoices(F, FALSE)] : \A f \in F \ {"a"} : f \notin Range(g[f])}

Globs(files, kind) ==
  IF GlobKind(kind) /\ Len(files) > 1 THEN {files, Tail(files)} ELSE {files}

----------------------------------------------------------------------------
\* C17: every import graph, no fault; repeated and pre-cached loads
C17Sessions(grepo, n, kind) ==
  LET b == IF n > 1 THEN "b" ELSE "a" IN
  (IF grepo THEN {<<Load("a", "file", <<>>), Load("a", "file", <<>>), Load(b, "file", <<>>)>>,
                  <<Load(b, "file", <<>>), Load("a", "strfile", <<>>)>>}
   ELSE {<<Load("a", "file", <<>>), Load("a", "strfile", <<>>)>>})
  \cup \* a main model without file name takes part in multi-file loading with a GlobalRepo provider
  (IF GlobKind(kind) THEN {<<Load("a", "str", <<>>), Load("a", "str", <<>>), Load(b, "file", <<>>)>>} ELSE {})

C17N(n, full, vs) ==
  LET files == FilesN(n)  F == Range(files) IN
  UNION { { Mk(files, g, gl, v, k, gr, <<>>, NoFault, s, Const(F, 0), Const(F, 0)) :
              v \in vs, g \in Graphs(F, k, full), gl \in Globs(files, k), s \in C17Sessions(gr, n, k) }
          : k \in MCKinds, gr \in MCGrepo }

\* two languages: the files of language B are dispatched to another metamodel; the
\* repositories of the two metamodels are absent, separate or one shared object; a file is
\* loaded directly (cached) before / after models of the other language import it
Shapes3 == { [a |-> <<"b">>, b |-> <<"c">>, c |-> <<>>],
             [a |-> <<"b", "c">>, b |-> <<"c">>, c |-> <<>>],
             [a |-> <<"b">>, b |-> <<"c">>, c |-> <<"a">>],
             [a |-> <<"b", "c">>, b |-> <<>>, c |-> <<>>],
             [a |-> <<"c", "b">>, b |-> <<"a", "c">>, c |-> <<"b">>] }
RepoCfgs == { [A |-> "-", B |-> "r2"], [A |-> "r1", B |-> "r2"], [A |-> "r1", B |-> "r1"], [A |-> "r1", B |-> "-"] }
TwoLangs(F) == IF Quick /\ Cardinality(F) = 3
               THEN {[f \in F |-> IF f \in S THEN "B" ELSE "A"] : S \in {{"b"}, {"c"}, {"b", "c"}}}
               ELSE {l \in [F -> {"A", "B"}] : \E f, g \in F : l[f] # l[g]}
C17MLSessions(F) ==
  UNION {{ <<Load(p, "file", <<>>), Load("a", "file", <<>>), Load(p, "file", <<>>)>>,
           <<Load("a", "file", <<>>), Load(p, "file", <<>>), Load("a", "strfile", <<>>)>> } : p \in F \ {"a"}}
  \cup (IF Cardinality(F) = 3 THEN {<<Load("b", "file", <<>>), Load("a", "file", <<>>), Load("c", "file", <<>>)>>} ELSE {})
C17ML(n) ==
  LET files == FilesN(n)  F == Range(files) IN
  UNION { { MkX(files, l, g, gl, 1, k, rc, DeclA(<<>>), NoFault, s, Const(F, 0), Const(F, 0)) :
              l \in TwoLangs(F), rc \in RepoCfgs, gl \in Globs(files, k), s \in C17MLSessions(F),
              g \in (IF GlobKind(k) THEN {Const(F, <<>>)} ELSE IF n = 3 THEN Shapes3 ELSE Graphs(F, k, FALSE)) }
          : k \in MCKinds }

\* several main models from strings (without and with file_name=) interleaved with file loads
\* on one metamodel: every string model is an entry of its own in a global repository
StrSession == <<Load("a", "str", <<>>), Load("b", "file", <<>>), Load("b", "str", <<>>),
                Load("a", "strfile", <<>>), Load("a", "str", <<>>), Load("a", "file", <<>>)>>
C17Str(n) ==
  LET files == FilesN(n)  F == Range(files) IN
  UNION { { Mk(files, Const(F, <<>>), gl, 1, k, gr, <<>>, NoFault, StrSession, Const(F, 0), Const(F, 0)) :
              gl \in Globs(files, k) }
          : k \in MCKinds, gr \in MCGrepo }

\* a load that fails (in any phase) between successful loads: what the global repository
\* held before is still handed out afterwards
C17Fail ==
  LET files == FilesN(3)  F == Range(files) IN
  UNION { { Mk(files, g, IF GlobKind(k) THEN Tail(files) ELSE files, 1, k, TRUE, <<>>, Flt(ph, "a"),
               <<Load("c", "file", <<>>), Load("a", "file", <<>>), Load("c", "file", <<>>), Load("b", "file", <<>>)>>,
               Const(F, 0), Const(F, 0)) :
              ph \in {"syntax", "unknown", "objproc", "modelproc"},
              g \in (IF GlobKind(k) THEN {Const(F, <<>>)} ELSE Shapes3) }
          : k \in MCKinds }

FamC17(dummy) ==
  C17Str(2) \cup C17Str(3) \cup C17Fail \cup
  (IF Quick THEN C17N(1, TRUE, {0, 1, 2}) \cup C17N(2, TRUE, {0, 1, 2}) \cup C17N(3, FALSE, {1})
   ELSE C17N(1, TRUE, {0, 1, 2}) \cup C17N(2, TRUE, {0, 1, 2}) \cup C17N(3, TRUE, {0, 1, 2}))
  \cup C17ML(2) \cup C17ML(3)

----------------------------------------------------------------------------
\* C18: which file fails in which phase, pre-cached files, repaired reload
C18Graphs(n, kind) ==
  LET F == Range(FilesN(n)) IN
  IF GlobKind(kind) THEN {Const(F, <<>>)}
  ELSE IF n = 3 /\ Quick THEN Shapes3
  ELSE Graphs(F, kind, n < 3)

C18One(n, k, gr, g0, gl) ==
  LET files == FilesN(n)  F == Range(files)  filesz == Append(files, "z")  Fz == F \cup {"z"}
      g   == g0 @@ ("z" :> <<>>)
      R   == Reach("a", g, gl, k)
      pres(ff) == IF gr THEN {"-", "z"} \cup {p \in R \ {"a"} : ff \notin Reach(p, g, gl, k)}
                  ELSE {"-"}
      \* the main model from a file, or from a string without file name (GlobalRepo
      \* providers accept that with imports, ImportURI providers only without)
      \* or the file is loaded into a repository owned by the application
      hows == {"file"} \cup (IF GlobKind(k) \/ g0["a"] = <<>> THEN {"str"} ELSE {})
                \cup (IF n < 3 \/ ~Quick THEN {"app"} ELSE {})
      preh(hw) == IF hw = "app" THEN "app" ELSE "file"
      prs(ff, hw) == IF hw = "app" /\ ~gr THEN pres(ff) \cup {p \in R \ {"a"} : ff \notin Reach(p, g, gl, k)}
                     ELSE pres(ff)
  IN UNION { { Mk(filesz, g, gl, 1, k, gr, <<>>, Flt(ph, ff),
                  (IF p = "-" THEN <<>> ELSE <<Load(p, preh(hw), <<>>)>>)
                    \o <<Load("a", hw, <<>>), RepairOp, Load("a", hw, <<>>)>>
                    \o (IF gr THEN <<Load("a", "file", <<>>)>> ELSE <<>>)
                    \o (IF p = "-" THEN <<>> ELSE <<Load(p, preh(hw), <<>>)>>),
                  Const(Fz, 0), Const(Fz, 0)) :
                 ph \in {"syntax", "unknown", "objproc", "modelproc"}, p \in prs(ff, hw) }
               : ff \in R, hw \in hows }

C18N(n) ==
  UNION { UNION { C18One(n, k, gr, g0, gl) : g0 \in C18Graphs(n, k), gl \in Globs(FilesN(n), k) }
          : k \in MCKinds, gr \in MCGrepo }

\* string main models: an earlier successful string load, a string load failing in any phase,
\* the repaired string load, then string / file loads of the same files again
C18Str(n) ==
  LET files == FilesN(n)  F == Range(files)
      gls(k) == IF GlobKind(k) THEN {Tail(files)} ELSE {files} IN
  UNION { { Mk(files, Const(F, <<>>), gl, 1, k, gr, <<>>, Flt(ph, "a"),
               <<Load("b", "str", <<>>), Load("a", "str", <<>>), RepairOp, Load("a", "str", <<>>),
                 Load("b", "strfile", <<>>), Load("a", "file", <<>>), Load("b", "str", <<>>)>>,
               Const(F, 0), Const(F, 0)) :
              ph \in {"syntax", "unknown", "objproc", "modelproc"}, gl \in gls(k) }
          : k \in MCKinds, gr \in MCGrepo }

FamC18(dummy) == C18N(1) \cup C18N(2) \cup C18N(3) \cup C18Str(2) \cup C18Str(3)

----------------------------------------------------------------------------
\* C27: declared x given parameters, string and file loads, every import path
Givens == {<<>>, <<"p">>, <<"q">>, <<"p", "q">>, <<"zzz">>, <<"p", "zzz">>, <<"project_root">>,
           <<"p", "project_root">>}
Declareds == {<<>>, <<"p">>, <<"p", "q">>}

C27Graphs(kind) ==
  IF GlobKind(kind) THEN {<<1, Const({"a"}, <<>>)>>, <<2, Const({"a", "b"}, <<>>)>>,
                          <<3, Const({"a", "b", "c"}, <<>>)>>}
  ELSE {<<1, [a |-> <<>>]>>, <<1, [a |-> <<"a">>]>>,
        <<2, [a |-> <<"b">>, b |-> <<>>]>>, <<2, [a |-> <<"b">>, b |-> <<"a">>]>>,
        <<3, [a |-> <<"b">>, b |-> <<"c">>, c |-> <<>>]>>,
        <<3, [a |-> <<"b", "c">>, b |-> <<"c">>, c |-> <<"a">>]>>}
     \cup (IF Quick THEN {} ELSE {<<2, g>> : g \in Graphs({"a", "b"}, kind, TRUE)})

C27One(k, gr, ng) ==
  LET n == ng[1]  g == ng[2]  files == FilesN(n)  F == Range(files) IN
  { Mk(files, g, files, 1, k, gr, d, NoFault,
       <<Load("a", how, gv)>> \o (IF gr THEN <<Load("a", "file", <<>>)>> ELSE <<>>),
       Const(F, 0), Const(F, 0)) :
      d \in Declareds, gv \in Givens,
      how \in {"file", "strfile"} \cup (IF g["a"] = <<>> THEN {"str"} ELSE {}) }

\* parameter values: None and the other falsy values are values like any other
C27Vals(k, gr, ng) ==
  LET n == ng[1]  g == ng[2]  files == FilesN(n)  F == Range(files) IN
  { Mk(files, g, files, 1, k, gr, d, NoFault, <<LoadV("a", "file", gv, vl)>>, Const(F, 0), Const(F, 0)) :
      d \in Declareds, gv \in {<<"p">>, <<"p", "q">>, <<"zzz">>, <<"p", "zzz">>}, vl \in {"none", "falsy"} }

\* closures over two languages: only the metamodel that is called checks the names, and
\* every model of the closure gets the parameters, whatever its own metamodel declares
C27MLGraphs(kind) ==
  IF GlobKind(kind) THEN {<<3, Const({"a", "b", "c"}, <<>>), [a |-> "A", b |-> "B", c |-> "A"]>>}
  ELSE {<<2, [a |-> <<"b">>, b |-> <<>>], [a |-> "A", b |-> "B"]>>,
        <<3, [a |-> <<"b">>, b |-> <<"c">>, c |-> <<>>], [a |-> "A", b |-> "B", c |-> "A"]>>,
        <<3, [a |-> <<"b", "c">>, b |-> <<"c">>, c |-> <<"a">>], [a |-> "B", b |-> "A", c |-> "B"]>>}
C27ML(k, ngl) ==
  LET n == ngl[1]  g == ngl[2]  l == ngl[3]  files == FilesN(n)  F == Range(files) IN
  { MkX(files, l, g, files, 1, k, rc, [A |-> dA, B |-> dB], NoFault, <<LoadV("a", "file", gv, vl)>>,
        Const(F, 0), Const(F, 0)) :
      rc \in {[A |-> "-", B |-> "-"], [A |-> "r1", B |-> "r2"]},
      dA \in {<<"p">>, <<"p", "q">>}, dB \in {<<>>, <<"p">>},
      gv \in {<<"p">>, <<"q">>, <<"p", "project_root">>, <<"zzz">>}, vl \in {"std", "none"} }

\* the value of the built-in project_root is user data too: not normalised on its way to the models
C27Root(k, gr, ng) ==
  LET n == ng[1]  g == ng[2]  files == FilesN(n)  F == Range(files) IN
  { Mk(files, g, files, 1, k, gr, <<"p">>, NoFault, <<LoadV("a", how, gv, vl)>>, Const(F, 0), Const(F, 0)) :
      gv \in {<<"project_root">>, <<"p", "project_root">>}, vl \in {"trail", "dotdot", "rel"},
      how \in {"file"} \cup (IF g["a"] = <<>> THEN {"str"} ELSE {}) }

\* parameters declared between two loads of one metamodel are accepted from then on
C27Decl(k, gr, ng) ==
  LET n == ng[1]  g == ng[2]  files == FilesN(n)  F == Range(files) IN
  { Mk(files, g, files, 1, k, gr, d, NoFault,
       <<Load("a", how, gv), DeclareOp("A", <<"q">>), Load("a", how, <<"q">>), Load("a", how, <<"q", "zzz">>)>>,
       Const(F, 0), Const(F, 0)) :
      d \in {<<>>, <<"p">>}, gv \in {<<>>, <<"p">>, <<"q">>}, how \in {"file"} \cup (IF g["a"] = <<>> THEN {"str"} ELSE {}) }

FamC27(dummy) ==
  UNION { UNION { C27One(k, gr, ng) \cup C27Vals(k, gr, ng) \cup C27Root(k, gr, ng) \cup C27Decl(k, gr, ng)
                  : ng \in C27Graphs(k) } : k \in MCKinds, gr \in MCGrepo }
  \cup UNION { UNION { C27ML(k, ngl) : ngl \in C27MLGraphs(k) } : k \in MCKinds }

----------------------------------------------------------------------------
\* C28: one offending text per scenario: kind x file of a chain a -> b -> c x layout
\* <<pad a, ind a, pad others, ind others, deco a, deco others>>
Layouts == IF Quick THEN { <<0, 0, 1, 2, 0, 0>>, <<2, 1, 0, 0, 7, 0>>, <<1, 3, 2, 1, 6, 9>> }
           ELSE { <<pa, ia, po, io, da, do>> : pa \in {0, 2}, ia \in {0, 1, 3}, po \in {0, 1, 2}, io \in {0, 2},
                                                da \in {0, 7}, do \in {0, 6} }

ChainImports(n, kind) ==
  IF GlobKind(kind) THEN Const(Range(FilesN(n)), <<>>)
  ELSE [f \in Range(FilesN(n)) |-> IF f = "a" /\ n > 1 THEN <<"b">> ELSE IF f = "b" /\ n > 2 THEN <<"c">> ELSE <<>>]
Imported(f, n) == IF f = "a" /\ n > 1 THEN {"b"} ELSE IF f = "b" /\ n > 2 THEN {"c"} ELSE {}
Importer(f) == IF f = "b" THEN "a" ELSE IF f = "c" THEN "b" ELSE "-"

\* references: own name and the imported file's name; for a duplicate in g referenced from r
\* only r mentions U(g)
C28Refs(n, flt) ==
  [f \in Range(FilesN(n)) |->
     LET ownOk == ~(flt.kind = "notunique" /\ flt.file = f /\ flt.ref # f)
         impOk(h) == ~(flt.kind = "notunique" /\ flt.file = h /\ flt.ref # f)
     IN (IF ownOk THEN <<U(f)>> ELSE <<>>)
        \o SelectSeq(<<"ub", "uc">>, LAMBDA u : \E h \in Imported(f, n) : U(h) = u /\ impOk(h))]

C28Faults(n, kind) ==
  LET F == Range(FilesN(n)) IN
     {[kind |-> ph, file |-> f, ref |-> "-"] : ph \in {"syntax", "unknown"}, f \in F}
  \cup (IF kind # "rrel" THEN {[kind |-> "postponed", file |-> f, ref |-> "-"] : f \in F} ELSE {})
  \cup (IF kind \in {"plain_uri", "plain_search", "plain_glob"}
        THEN {[kind |-> "notunique", file |-> f, ref |-> r] : f \in F, r \in F}
        ELSE {})

\* lv = 1: the references are the elements of one list reference `refs x, y` (separator),
\* and the offending reference is an element of that list
C28Sc(n, k, gr, flt, ly, how, lv, bi, extra) ==
  LET files == FilesN(n)  F == Range(files)
      rs == [f \in F |-> C28Refs(n, flt)[f] \o (IF f = "a" THEN extra ELSE <<>>)]
  IN [files |-> files, lang |-> OneLang(F), imports |-> ChainImports(n, k), glob |-> files,
      defs |-> [f \in F |-> <<U(f)>>],
      refs |-> IF lv = 1 THEN Const(F, <<>>) ELSE rs,
      lrefs |-> IF lv = 1 THEN rs ELSE Const(F, <<>>),
      pad |-> [f \in F |-> IF f = "a" THEN ly[1] ELSE ly[3]],
      ind |-> [f \in F |-> IF f = "a" THEN ly[2] ELSE ly[4]],
      deco |-> [f \in F |-> IF f = "a" THEN ly[5] ELSE ly[6]],
      kind |-> k, repo |-> RepoOf(gr), builtin |-> bi, declared |-> DeclA(<<>>),
      fault |-> [kind |-> flt.kind, file |-> flt.file, at |-> IF lv = 1 THEN "list" ELSE "use"],
      session |-> <<Load("a", how, <<>>)>>]

C28Hows(n, k) == {"file", "strfile"} \cup (IF n = 1 /\ ~GlobKind(k) THEN {"str"} ELSE {})

FamC28(dummy) ==
  UNION { { C28Sc(n, k, gr, flt, ly, how, lv, <<>>, <<>>) :
              flt \in {x \in C28Faults(n, k) :
                         x.kind # "notunique" \/ x.ref = x.file \/ x.ref = Importer(x.file)},
              ly \in Layouts, how \in C28Hows(n, k), lv \in {0, 1} }
          : k \in MCKinds, gr \in MCGrepo, n \in {1, 2, 3} }
  \cup \* the duplicates live in the builtin model (built from a string); the main model comes from
       \* a file or from a string: both texts have no file name then
  UNION { { C28Sc(n, k, gr, [kind |-> "notunique", file |-> "<builtin>", ref |-> "a"], ly, how, lv,
                  <<"kb", "k2">>, <<"kb">>) :
              ly \in Layouts, how \in C28Hows(n, k), lv \in {0, 1} }
          : k \in MCKinds \cap {"plain_uri", "plain_search", "plain_glob"}, gr \in MCGrepo, n \in {1, 2} }

----------------------------------------------------------------------------
\* (operators with a parameter: TLC evaluates parameterless constant definitions at start-up)
Family(name) ==
  CASE name = "C17" -> FamC17(0)
    [] name = "C18" -> FamC18(0)
    [] name = "C27" -> FamC27(0)
    [] name = "C28" -> FamC28(0)


ASSUME JsonSerialize(IOEnv.VT_OUT, SetToSeq(Family(Cfg.family)))

NoScenarios == <<>>
NoDevs == {}
=============================================================================
