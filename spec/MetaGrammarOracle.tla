-------------------------- MODULE MetaGrammarOracle --------------------------
(* Oracle mode: TLC evaluates the MetaGrammar functions on token sequences     *)
(* handed over as JSON (the TLC-generated texts, their mutations, the targeted *)
(* cases and the token soups).  One RESULT line per case.                      *)
EXTENDS MetaGrammar, Json, IOUtils

\* Seq of [id, toks, raws]; parsed once (a definition would be re-evaluated at every use)
ASSUME TLCSet(2, JsonDeserialize(IOEnv.VT_CASES))
Cases  == TLCGet(2)
Listed == JsonDeserialize(IOEnv.VT_DEVS)           \* Seq of deviation clause names (the listed open findings)
ListedSet == {Listed[i] : i \in 1..Len(Listed)}
TxListed  == ListedSet \cap TxDevs

VARIABLE i
Init == i = 0

Result(c) ==
  LET text == Expand(c.toks, c.raws, {})              \* as the grammar compiler lexes it
      f == Facts(text)
      l == f.ok
      TxIn(D) == InL(Expand(c.toks, c.raws, D), D)    \* as textx.tx under D lexes and parses it
      x == IF TxListed = {} THEN l ELSE TxIn(TxListed)
  IN [id |-> c.id,
      l |-> l,                                        \* the compiler's grammar accepts
      x |-> x,                                        \* textx.tx, as described by the listed Tx clauses, accepts
      by |-> IF l = x THEN {} ELSE {d \in TxListed : TxIn({d}) # l},   \* clauses that flip the verdict alone
      cls |-> ClassF(f),
      allowed |-> AllowedF(f, {}),
      leaks |-> {<<d, e>> \in (ListedSet \cap C23Devs) \X {"TypeError", "UnicodeDecodeError", "RecursionError", "AttributeError"} :
                   e \in LeaksF(f, {d})},                 \* what each listed C23 clause admits in addition
      wh |-> WellHosted(c.toks, FALSE),               \* the harness kept slashes and quotes out of what follows a chunk
      cov |-> CoverageF(f)]

Next == i < Len(Cases) /\ i' = i + 1 /\ PrintT("RESULT|" \o ToJson(Result(Cases[i + 1])))
Spec == Init /\ [][Next]_i
=============================================================================
