-------------------------- MODULE MetaGrammarOracle --------------------------
(* Oracle mode: TLC evaluates the MetaGrammar functions on token sequences     *)
(* handed over as JSON (the TLC-generated texts, their mutations, the targeted *)
(* cases and the token soups).  One RESULT line per case.                      *)
EXTENDS MetaGrammar, Json, IOUtils

Cases  == JsonDeserialize(IOEnv.VT_CASES)          \* Seq of [id, toks]
Listed == JsonDeserialize(IOEnv.VT_DEVS)           \* Seq of deviation clause names (the listed open findings)
ListedSet == {Listed[i] : i \in 1..Len(Listed)}
TxListed  == ListedSet \cap TxDevs

VARIABLE i
Init == i = 0

Result(c) ==
  LET text == c.toks
      f == Facts(text)
      l == f.ok
      x == IF TxListed = {} THEN l ELSE InL(text, TxListed)
  IN [id |-> c.id,
      l |-> l,                                        \* the compiler's grammar accepts
      x |-> x,                                        \* textx.tx, as described by the listed Tx clauses, accepts
      by |-> IF l = x THEN {} ELSE {d \in TxListed : InL(text, {d}) # l},   \* clauses that flip the verdict alone
      cls |-> ClassF(f),
      allowed |-> AllowedF(f, {}),
      leaks |-> {<<d, e>> \in (ListedSet \cap C23Devs) \X {"TypeError", "UnicodeDecodeError", "RecursionError", "AttributeError"} :
                   e \in LeaksF(f, {d})},                 \* what each listed C23 clause admits in addition
      cov |-> CoverageF(f)]

Next == i < Len(Cases) /\ i' = i + 1 /\ PrintT("RESULT|" \o ToJson(Result(Cases[i + 1])))
Spec == Init /\ [][Next]_i
=============================================================================
