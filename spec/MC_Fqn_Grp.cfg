SPECIFICATION Spec
CONSTANTS
  Dev = {}
  MaxCross = 0
  GrpSlots = {1, 2}
  TClasses = {"Cls", "Pkg"}
INVARIANT C10
CHECK_DEADLOCK FALSE
