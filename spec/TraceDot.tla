------------------------------ MODULE TraceDot ------------------------------
(* I->S for C29: exported DOT texts as traces of DotLex!Step, one character  *)
(* per step.  Many texts per TLC run: `tid` is chosen initially, `pos`       *)
(* counts consumed characters.  When a text ends (or an error is found) one  *)
(* RESULT line reports acceptance, the statement counts and, for a rejected  *)
(* text, the kind and the position of the failure.                           *)
EXTENDS DotLex, IOUtils, Json

Traces == JsonDeserialize(IOEnv.VT_TRACES)    \* Seq of [id, text |-> Seq of character codes]

VARIABLES tid, pos, cfg, badpos
tvars == <<tid, pos, cfg, badpos>>

TInit == tid \in 1..Len(Traces) /\ pos = 0 /\ cfg = Init0 /\ badpos = 0

TNext ==
  /\ pos < Len(Traces[tid].text) /\ cfg.err = ""
  /\ cfg' = Step(cfg, Traces[tid].text[pos + 1])
  /\ pos' = pos + 1 /\ tid' = tid
  \* where the label of the current statement stopped being a record label
  /\ badpos' = IF ~cfg.lblbad /\ cfg'.lblbad THEN pos + 1 ELSE badpos

TSpec == TInit /\ [][TNext]_tvars

AtEnd == pos' = Len(Traces[tid].text) \/ cfg'.err # ""
Emit == AtEnd =>
  PrintT("RESULT|" \o ToJson(
    [id     |-> Traces[tid].id,
     accept |-> Accepting(cfg') /\ pos' = Len(Traces[tid].text),
     err    |-> IF cfg'.err # "" THEN cfg'.err
                ELSE IF Accepting(cfg') THEN "" ELSE "eof-" \o cfg'.lex \o "-" \o cfg'.ps,
     at     |-> IF cfg'.err = "badlabel" THEN badpos' ELSE pos',
     nodes  |-> cfg'.nodes, bare |-> cfg'.bare, edges |-> cfg'.edges, bars |-> cfg'.bars, nids |-> Cardinality(cfg'.ids)]))
=============================================================================
