------------------------------- MODULE MC_Nav -------------------------------
(***************************************************************************)
(* (M) for C05 / C07: TLC builds every object tree over a carrier          *)
(* meta-model up to a bound (each tree once: objects are numbered in        *)
(* pre-order and a new object is only ever attached on the rightmost path), *)
(* adds reference texts, and checks the design theorems of Nav.tla in every *)
(* state.  The same state graph, run with the Emit invariant, is the        *)
(* enumeration of cases for the conformance pass.                           *)
(***************************************************************************)
EXTENDS Nav, IOUtils, Json

CONSTANTS
  MaxN,        \* objects in a tree
  MaxNamed,    \* named objects
  MaxUnnamed,  \* unnamed objects besides the root
  MaxRefs,     \* reference texts plus plain values in a model
  Names,       \* <<>>: every object o is called "n<o>" and references name an
               \* ancestor or the object itself (back references);
               \* otherwise the names objects and references may use
  Sorted,      \* TRUE: list elements are added in non-decreasing (class, name) order
  FullN,       \* predicates range over all subsets of objects up to this size
  Builtins     \* set of builtins sequences used by the C07 theorems

VARIABLE g

----------------------------------------------------------------------------
\* the carrier meta-models

A(n, c, m, t)      == [name |-> n, cont |-> c, many |-> m, typ |-> t, alts |-> << >>, prim |-> FALSE]
AO(n, m, alts, pr) == [name |-> n, cont |-> TRUE, many |-> m, typ |-> "OBJECT", alts |-> alts, prim |-> pr]

\* C05: recursive containment; a single abstract, a list OBJECT-typed (assigned
\* at several places with different rules, one of them INT, so that plain values
\* and objects sit side by side), a single concrete and a list
\* concrete containment attribute; single and list references interleaved with
\* them.  Class names are prefixes / suffixes of one another on purpose.
MM5 == [root |-> "Pkg",
        classes |-> <<
          [name |-> "Pkg", named |-> TRUE, attrs |-> <<
             A("one", TRUE, FALSE, "Elem"), A("up", FALSE, FALSE, "Elem"),
             AO("elems", TRUE, <<"Pkg", "PkgSubPkg", "PkgLeaf">>, TRUE), A("ups", FALSE, TRUE, "Elem") >>],
          [name |-> "PkgSubPkg", named |-> TRUE, attrs |-> <<
             A("first", TRUE, FALSE, "PkgLeaf"), A("rest", TRUE, TRUE, "Pkg") >>],
          [name |-> "PkgLeaf", named |-> TRUE, attrs |-> <<
             A("to", FALSE, FALSE, "Elem") >>] >>,
        abstracts |-> << [name |-> "Elem", subs |-> <<"Pkg", "PkgSubPkg", "PkgLeaf">>] >>]

\* C07: abstract Base with two subclasses, an unrelated class; Any / Alt put
\* Sub2 under two abstract rules (diamond) and refer to each other (cycle), with
\* Other listed after both; reference holders with single / list attributes
\* and concrete / abstract / diamond targets
MM7 == [root |-> "Model",
        classes |-> <<
          [name |-> "Model", named |-> FALSE, attrs |-> << A("elems", TRUE, TRUE, "Elem") >>],
          [name |-> "Sub1", named |-> TRUE, attrs |-> << >>],
          [name |-> "Sub2", named |-> TRUE, attrs |-> << A("elems", TRUE, TRUE, "Elem") >>],
          [name |-> "Other", named |-> TRUE, attrs |-> << >>],
          [name |-> "Use", named |-> FALSE, attrs |-> <<
             A("rb", FALSE, FALSE, "Base"), A("r1", FALSE, FALSE, "Sub1"),
             A("ro", FALSE, FALSE, "Other"), A("ra", FALSE, FALSE, "Any") >>],
          [name |-> "Refs", named |-> FALSE, attrs |-> <<
             A("lb", FALSE, TRUE, "Base"), A("la", FALSE, TRUE, "Any") >>] >>,
        abstracts |-> << [name |-> "Elem", subs |-> <<"Base", "Other", "Use", "Refs">>],
                         [name |-> "Base", subs |-> <<"Sub1", "Sub2">>],
                         [name |-> "Any",  subs |-> <<"Base", "Alt">>],
                         [name |-> "Alt",  subs |-> <<"Any", "Sub2", "Other">>] >>]

\* MM7 without nesting (Sub2 has no contents): the flat part of the C07 universe
MM7F == [MM7 EXCEPT !.classes[3].attrs = << >>]

NoNames == << >>
XY      == <<"x", "y">>
NoDev   == {}

\* bounds and switches come from the environment (one cfg per purpose).
\* TLC re-evaluates the right-hand side of a cfg substitution `C <- D` at every
\* use of C, but caches an ordinary constant-level definition: hence D == D0.
EnvDev0      == IF IOEnv.VT_DEV = "" THEN {} ELSE {IOEnv.VT_DEV}
EnvMM0       == CASE IOEnv.VT_NAV_MM = "MM7" -> MM7 [] IOEnv.VT_NAV_MM = "MM7F" -> MM7F [] OTHER -> MM5
EnvNames0    == IF IOEnv.VT_NAV_MM \in {"MM7", "MM7F"} THEN XY ELSE NoNames
EnvMaxN0     == atoi(IOEnv.VT_NAV_MAXN)
EnvMaxNamed0 == atoi(IOEnv.VT_NAV_MAXNAMED)
EnvMaxUn0    == atoi(IOEnv.VT_NAV_MAXUNNAMED)
EnvMaxRefs0  == atoi(IOEnv.VT_NAV_MAXREFS)
EnvFullN0    == atoi(IOEnv.VT_NAV_FULLN)
EnvSorted0   == IOEnv.VT_NAV_SORTED = "1"
EnvDev      == EnvDev0
EnvMM       == EnvMM0
EnvNames    == EnvNames0
EnvMaxN     == EnvMaxN0
EnvMaxNamed == EnvMaxNamed0
EnvMaxUn    == EnvMaxUn0
EnvMaxRefs  == EnvMaxRefs0
EnvFullN    == EnvFullN0
EnvSorted   == EnvSorted0

BiX == [name |-> "x", cls |-> "Sub1"]
BiY == [name |-> "y", cls |-> "Other"]
NoBuiltins == { << >> }
XYBuiltins == { << >>, <<BiX>>, <<BiY>>, <<BiX, BiY>> }

----------------------------------------------------------------------------
\* building trees

N == Len(g.cls)

Fresh(c, nm, p) ==
  [cls  |-> Append(g.cls, c), name |-> Append(g.name, nm), par |-> Append(g.par, p),
   kids |-> Append(g.kids, [i \in 1..Len(ContAttrs(c)) |-> [a |-> ContAttrs(c)[i].name, e |-> << >>]]),
   refs |-> Append(g.refs, [i \in 1..Len(RefAttrs(c)) |-> [a |-> RefAttrs(c)[i].name, names |-> << >>]])]

Empty == [cls |-> << >>, name |-> << >>, par |-> << >>, kids |-> << >>, refs |-> << >>]

NameIdx(nm) == IF nm = "" THEN 0 ELSE CHOOSE i \in 1..Len(Names) : Names[i] = nm
Key(c, nm)  == ClassIdx(c) * 10 + NameIdx(nm)

NamesFor(c, o) ==
  IF ~ClassOf(c).named THEN {""}
  ELSE IF Names = << >> THEN {"n" \o ToString(o)}
  ELSE Range(Names)

RightPath == {N} \cup Ancestors(g, N)

NamedCount   == Cardinality({o \in Objs(g) : g.name[o] # ""})
UnnamedCount == Cardinality({o \in Objs(g) : g.name[o] = "" /\ g.par[o] # 0})
PrimCount    == Len(SelectSeq(Flat([o \in Objs(g) |-> Flat([i \in 1..Len(g.kids[o]) |-> g.kids[o][i].e])]),
                             LAMBDA k : k = 0))
RefCount     == Len(Flat([o \in Objs(g) |-> Flat([i \in 1..Len(g.refs[o]) |-> g.refs[o][i].names])]))
                  + PrimCount

AddNode(p, i, c, nm) ==
  LET at == ContAttrs(g.cls[p])[i]
      el == g.kids[p][i].e
  IN /\ N < MaxN
     /\ \A j \in (i + 1)..Len(g.kids[p]) : g.kids[p][j].e = << >>
     /\ (at.many \/ el = << >>)
     /\ c \in Allowed(at)
     /\ (nm # "" => NamedCount < MaxNamed)
     /\ (nm = "" => UnnamedCount < MaxUnnamed)
     /\ (Sorted /\ el # << >> =>
           Key(g.cls[el[Len(el)]], g.name[el[Len(el)]]) <= Key(c, nm))
     /\ g' = [Fresh(c, nm, p) EXCEPT !.kids[p][i].e = Append(@, N + 1)]

\* a plain value appended to a list that can hold one (same place rule as AddNode)
AddPrim(p, i) ==
  LET at == ContAttrs(g.cls[p])[i] IN
  /\ at.prim /\ at.many
  /\ RefCount < MaxRefs
  /\ \A j \in (i + 1)..Len(g.kids[p]) : g.kids[p][j].e = << >>
  /\ g' = [g EXCEPT !.kids[p][i].e = Append(@, 0)]

RefNamesFor(o) ==
  IF Names = << >> THEN {g.name[a] : a \in {o} \cup Ancestors(g, o)} ELSE Range(Names)

AddRef(o, i, nm) ==
  LET at == RefAttrs(g.cls[o])[i] IN
  /\ RefCount < MaxRefs
  /\ (at.many \/ g.refs[o][i].names = << >>)
  /\ g' = [g EXCEPT !.refs[o][i].names = Append(@, nm)]

Init == g \in { LET c == MM.root IN
                [cls |-> <<c>>, name |-> <<nm>>, par |-> <<0>>,
                 kids |-> << [i \in 1..Len(ContAttrs(c)) |-> [a |-> ContAttrs(c)[i].name, e |-> << >>]] >>,
                 refs |-> << [i \in 1..Len(RefAttrs(c)) |-> [a |-> RefAttrs(c)[i].name, names |-> << >>]] >>]
                : nm \in (IF ~ClassOf(MM.root).named THEN {""}
                          ELSE IF Names = << >> THEN {"n1"} ELSE Range(Names)) }

Next ==
  \/ \E p \in RightPath : \E i \in 1..Len(g.kids[p]) :
       \E c \in Allowed(ContAttrs(g.cls[p])[i]) : \E nm \in NamesFor(c, N + 1) :
         AddNode(p, i, c, nm)
  \/ \E p \in RightPath : \E i \in 1..Len(g.kids[p]) : AddPrim(p, i)
  \/ \E o \in Objs(g) : \E i \in 1..Len(g.refs[o]) : \E nm \in RefNamesFor(o) : AddRef(o, i, nm)

Spec == Init /\ [][Next]_g

----------------------------------------------------------------------------
\* Theorems of the module (C05)

TWellFormed == WellFormed(g)

\* every parent chain ends at the one root; the root has no parent
TParentChain ==
  \A o \in Objs(g) :
    /\ ModelOf(g, o, TRUE) = TheRoot(g)
    /\ g.par[ModelOf(g, o, TRUE)] = 0
    /\ (o # TheRoot(g) => TheRoot(g) \in Ancestors(g, o))
    /\ (o = TheRoot(g) => Ancestors(g, o) = {})

\* get_parent_of_type: the nearest strict ancestor of that class, 0 iff none
TParentOfType ==
  \A o \in Objs(g) : \A t \in ClassNames :
    LET r  == ParentOfType(g, t, o)
        AT == {a \in Ancestors(g, o) : g.cls[a] = t}
    IN IF AT = {} THEN r = 0
       ELSE r \in AT /\ \A a \in AT \ {r} : a \in Ancestors(g, r)

ClassPreds ==
  {{o \in Objs(g) : g.cls[o] \in C} : C \in SUBSET ClassNames}
    \cup {Objs(g) \ {TheRoot(g)}, {o \in Objs(g) : o % 2 = 1}, {o \in Objs(g) : o % 3 # 0}}
Preds == IF N <= FullN THEN SUBSET Objs(g) ELSE ClassPreds

Related(a, b) == a \in Ancestors(g, b) \/ b \in Ancestors(g, a)

\* get_children: every selected object that is reached under should_follow,
\* exactly once; parents before children (after, with children_first);
\* otherwise in document order (object numbers are pre-order numbers here)
TChildren ==
  \A r \in Objs(g) : \A cf \in BOOLEAN : \A S \in Preds : \A F \in Preds :
    LET res == Children(g, S, r, cf, F) IN
    /\ NoDup(res)
    /\ Range(res) = S \cap ReachSet(g, r, F)
    /\ \A i, j \in 1..Len(res) :
         /\ (res[i] \in Ancestors(g, res[j]) => IF cf THEN j < i ELSE i < j)
         /\ (~Related(res[i], res[j]) /\ i < j => res[i] < res[j])

\* references never contribute: the result does not depend on them and stays
\* inside the containment subtree of the start object
NoRefs == [g EXCEPT !.refs = [o \in Objs(g) |-> [i \in 1..Len(g.refs[o]) |->
                                 [a |-> g.refs[o][i].a, names |-> << >>]]]]
TNoRefs ==
  \A r \in Objs(g) : \A cf \in BOOLEAN :
    LET res == Children(g, Objs(g), r, cf, Objs(g)) IN
    /\ res = Children(NoRefs, Objs(g), r, cf, Objs(g))
    /\ \A k \in Range(res) : k = r \/ r \in Ancestors(g, k)

\* get_children_of_type is get_children with the class test
TOfType ==
  \A t \in ClassNames : \A cf \in BOOLEAN :
    LET res == ChildrenOfType(g, t, TheRoot(g), cf, Objs(g)) IN
    Range(res) = {o \in Objs(g) : g.cls[o] = t} /\ NoDup(res)

----------------------------------------------------------------------------
\* Theorems of the module (C07)

TargetRules == ClassNames \cup AbstractNames
QueryNames  == Range(Names) \cup {"z"}

TConforms ==   \* (N >= 1 only makes this a state predicate, so that TLC reports it like the others)
  N >= 1 => \A c \in ClassNames : \A t \in TargetRules : Conforms(c, t) <=> c \in Below(t, Fuel)

\* the four outcomes of default resolution, stated on the set of candidates
TPlain ==
  \A nm \in QueryNames : \A t \in TargetRules : \A B \in Builtins :
    LET r  == Plain(g, nm, t, B)
        bt == Below(t, Fuel)
        M  == {o \in Objs(g) : g.name[o] = nm /\ g.cls[o] \in bt}
        bh == {i \in 1..Len(B) : B[i].name = nm /\ B[i].cls \in bt}
    IN /\ r.k \in {"obj", "builtin", "unknown", "notunique"}
       /\ (r.k = "obj" <=> Cardinality(M) = 1)
       /\ (r.k = "obj" => r.v = ToString(CHOOSE o \in M : TRUE))
       /\ (r.k = "notunique" <=> Cardinality(M) > 1)
       /\ (r.k = "builtin" <=> M = {} /\ bh # {})
       /\ (r.k = "unknown" <=> M = {} /\ bh = {})

\* a load succeeds iff every reference resolves; then every target is the
\* unique conforming object of that name, or the conforming builtin
TLoad ==
  \A B \in Builtins :
    /\ (LoadErrors(g, B) = {} <=> \A s \in Sites(g) : ~IsErr(Plain(g, s.nm, s.t, B)))
    /\ \A e \in LoadErrors(g, B) : \E s \in Sites(g) : s.nm = e.name /\ (e.cls # "-" => e.cls = s.t)

----------------------------------------------------------------------------
\* enumeration of cases for the conformance pass (INVARIANT: evaluated once
\* per distinct state)

Complete == \A o \in Objs(g) :
              (g.name[o] = "" /\ g.par[o] # 0) =>
                 \E i \in 1..Len(g.refs[o]) : g.refs[o][i].names # << >>
Emit == IF Complete THEN PrintT("G|" \o ToJson(g)) ELSE TRUE

ASSUME PrintT("MM|" \o ToJson(MM))
=============================================================================
