SPECIFICATION Spec
CONSTANTS
  Dev = {"FqnWalksParent"}
  MaxCross = 1
  GrpSlots = {}
  TClasses = {"Cls"}
INVARIANT C10
CHECK_DEADLOCK FALSE
