SPECIFICATION Spec
CONSTANTS
  Dev = {"FqnWalksParent"}
  MaxCross = 1
INVARIANT C10
CHECK_DEADLOCK FALSE
